"""C16 — storage layout of vec / mat / qua matches the documented contract, in every configuration.

D1 TypeFacts (compile-fail witnesses, exhaustive over lengths x shapes x element types x qualifiers x configurations):
   sizeof / alignof / offsetof of every named member / column stride / quaternion member order / length() and its type /
   trivially-copyable / typedef families resolve to the intended instantiations.
D2 LaneFlow: v[i], m[c][r], q[i] address exactly the lane TypeFacts says; value_ptr(x)[k] is lane k; make_vecN / make_matCxR /
   make_quat copy lane for lane.
"""
import os
from laneflow import term as tm
from laneflow import gtypes as G
from laneflow import runner as R
from laneflow import rulelib as L
from laneflow import typefacts as TF
from laneflow import build as B
from laneflow.build import K, P as Par, Cfg

HDR = ('glm/glm.hpp', 'glm/gtc/type_ptr.hpp', 'glm/gtc/type_precision.hpp', 'glm/gtc/quaternion.hpp', 'glm/ext/matrix_integer.hpp')
SCAL = ['bool', 'int8', 'int16', 'int32', 'int64', 'uint8', 'uint16', 'uint32', 'uint64', 'int', 'uint', 'float', 'double']
PQ = ['packed_highp', 'packed_mediump', 'packed_lowp']
AQ = ['aligned_highp', 'aligned_mediump', 'aligned_lowp']
XYZW, RGBA, STPQ = 'xyzw', 'rgba', 'stpq'


def configs(tier):
    cs = [
        ('default', Cfg('default', headers=HDR), {}),
        ('SWIZZLE', Cfg('swizzle', defines=('GLM_FORCE_SWIZZLE',), headers=HDR), {}),
        ('XYZW_ONLY', Cfg('xyzw', defines=('GLM_FORCE_XYZW_ONLY',), headers=HDR), {'xyzw_only': True}),
        ('SIZE_T_LENGTH', Cfg('sizet', defines=('GLM_FORCE_SIZE_T_LENGTH',), headers=HDR), {'size_t': True}),
        ('QUAT_DATA_WXYZ', Cfg('wxyz', defines=('GLM_FORCE_QUAT_DATA_WXYZ',), headers=HDR), {'wxyz': True}),
        ('CTOR_INIT', Cfg('ctorinit', defines=('GLM_FORCE_CTOR_INIT',), headers=HDR), {}),
        ('INTRINSICS_SSE2', Cfg('sse2', defines=('GLM_FORCE_INTRINSICS',), flags=('-msse2',), headers=HDR + ('glm/gtc/type_aligned.hpp',)), {'aligned': True, 'noconstexpr': True}),
        ('DEFAULT_ALIGNED_SSE2', Cfg('dasse2', defines=('GLM_FORCE_INTRINSICS', 'GLM_FORCE_DEFAULT_ALIGNED_GENTYPES'), flags=('-msse2',), headers=HDR + ('glm/gtc/type_aligned.hpp',)),
         {'aligned': True, 'noconstexpr': True, 'default_aligned': True}),
        ('INTRINSICS_AVX2', Cfg('avx2', defines=('GLM_FORCE_INTRINSICS',), flags=('-mavx2', '-mfma'), headers=HDR + ('glm/gtc/type_aligned.hpp',)), {'aligned': True, 'noconstexpr': True}),
        ('ALIGNED_GENTYPES', Cfg('alg', defines=('GLM_FORCE_INTRINSICS', 'GLM_FORCE_ALIGNED_GENTYPES'), flags=('-msse2',), headers=HDR + ('glm/gtc/type_aligned.hpp',)), {'aligned': True, 'noconstexpr': True}),
    ]
    if tier == 'thorough':
        for isa in ('sse3', 'ssse3', 'sse4.1', 'sse4.2', 'avx'):
            cs.append(('INTRINSICS_' + isa.upper(), Cfg(isa.replace('.', '_'), defines=('GLM_FORCE_INTRINSICS',), flags=('-m' + isa,), headers=HDR + ('glm/gtc/type_aligned.hpp',)),
                       {'aligned': True, 'noconstexpr': True}))
        cs.append(('SWIZZLE+WXYZ', Cfg('swz_wxyz', defines=('GLM_FORCE_SWIZZLE', 'GLM_FORCE_QUAT_DATA_WXYZ'), headers=HDR), {'wxyz': True}))
        cs.append(('CXX11', Cfg('cxx11', defines=('GLM_FORCE_CXX11',), headers=HDR), {}))
        cs.append(('CXX98', Cfg('cxx98', defines=('GLM_FORCE_CXX98',), headers=HDR), {'noconstexpr': True}))
    return cs


def facts_for(opts):
    F = []
    n = [0]

    def add(rule, expr, desc, pre=''):
        n[0] += 1
        F.append(TF.Fact('%s#%d' % (rule, n[0]), expr, desc, rule, pre))
    quals = PQ + (AQ if opts.get('aligned') else [])
    ltype = 'std::size_t' if opts.get('size_t') else 'int'
    for T in SCAL:
        cpp, sz, _ = G.SCALARS[T]
        for Q in quals:
            al = Q.startswith('aligned')
            for Lv in (1, 2, 3, 4):
                V = 'glm::vec<%d, %s, glm::%s>' % (Lv, cpp, Q)
                pre = 'typedef %s V;' % V
                stride = (4 if Lv == 3 else Lv) if al else Lv
                add('vec_size', 'sizeof(V) == %d * sizeof(%s)' % (stride, cpp), 'sizeof(%s) == %d*sizeof(T)' % (V, stride), pre)
                if not al:
                    add('vec_align', 'alignof(V) == alignof(%s)' % cpp, 'alignof(%s) == alignof(T)' % V, pre)
                elif T == 'float' and Lv in (3, 4):
                    add('vec_align', 'alignof(V) == 16 && sizeof(V) == 16', 'aligned float vec%d is 16 bytes, 16-byte aligned' % Lv, pre)
                elif T == 'float' and Lv == 2:
                    add('vec_align', 'alignof(V) == 8 && sizeof(V) == 8', 'aligned float vec2 is 8 bytes, 8-byte aligned', pre)
                else:
                    add('vec_align', 'alignof(V) >= alignof(%s) && sizeof(V) %% alignof(V) == 0' % cpp, 'aligned %s has at least element alignment' % V, pre)
                sets = [XYZW] if opts.get('xyzw_only') else [XYZW, RGBA, STPQ]
                for names in sets:
                    for i in range(Lv):
                        add('vec_member_offset', 'offsetof(V, %s) == %d * sizeof(%s)' % (names[i], i, cpp), 'offsetof(%s, %s) == %d*sizeof(T)' % (V, names[i], i), pre)
                add('vec_trivial', 'std::is_trivially_copyable<V>::value', '%s is trivially copyable' % V, pre)
                add('vec_length_type', 'std::is_same<decltype(V::length()), %s>::value && std::is_same<V::length_type, %s>::value' % (ltype, ltype),
                    '%s::length() has the configured length type %s' % (V, ltype), pre)
                add('vec_value_type', 'std::is_same<V::value_type, %s>::value' % cpp, '%s::value_type' % V, pre)
                if not opts.get('noconstexpr'):
                    add('vec_length', 'V::length() == %d' % Lv, '%s::length() == %d' % (V, Lv), pre)
            if T == 'bool':
                continue
            for C in (2, 3, 4):
                for Rr in (2, 3, 4):
                    M = 'glm::mat<%d, %d, %s, glm::%s>' % (C, Rr, cpp, Q)
                    pre = 'typedef %s M; typedef glm::vec<%d, %s, glm::%s> Col; typedef glm::vec<%d, %s, glm::%s> Row;' % (M, Rr, cpp, Q, C, cpp, Q)
                    add('mat_size', 'sizeof(M) == %d * sizeof(Col)' % C, 'sizeof(%s) == C*sizeof(column)' % M, pre)
                    add('mat_types', 'std::is_same<M::col_type, Col>::value && std::is_same<M::row_type, Row>::value && std::is_same<M::value_type, %s>::value' % cpp,
                        '%s col_type/row_type/value_type' % M, pre)
                    add('mat_align', 'alignof(M) == alignof(Col)', 'alignof(%s) == alignof(column)' % M, pre)
                    add('mat_trivial', 'std::is_trivially_copyable<M>::value', '%s is trivially copyable' % M, pre)
                    add('mat_length_type', 'std::is_same<decltype(M::length()), %s>::value' % ltype, '%s::length() type' % M, pre)
                    if not opts.get('noconstexpr'):
                        add('mat_length', 'M::length() == %d' % C, '%s::length() == %d' % (M, C), pre)
            if T in ('float', 'double'):
                Qn = 'glm::qua<%s, glm::%s>' % (cpp, Q)
                pre = 'typedef %s Qt;' % Qn
                order = 'wxyz' if opts.get('wxyz') else 'xyzw'
                add('qua_size', 'sizeof(Qt) == 4 * sizeof(%s)' % cpp, 'sizeof(%s) == 4*sizeof(T)' % Qn, pre)
                for c in 'xyzw':
                    add('qua_member_offset', 'offsetof(Qt, %s) == %d * sizeof(%s)' % (c, order.index(c), cpp), 'offsetof(%s, %s) (memory order %s)' % (Qn, c, order), pre)
                add('qua_length_type', 'std::is_same<decltype(Qt::length()), %s>::value' % ltype, '%s::length() type' % Qn, pre)
                if not opts.get('noconstexpr'):
                    add('qua_length', 'Qt::length() == 4', '%s::length() == 4' % Qn, pre)
    # typedef families of gtc/type_precision and the core headers
    dq = 'aligned_highp' if opts.get('default_aligned') else 'packed_highp'
    fam = {'i8': 'glm::int8', 'i16': 'glm::int16', 'i32': 'glm::int32', 'i64': 'glm::int64', 'u8': 'glm::uint8', 'u16': 'glm::uint16', 'u32': 'glm::uint32', 'u64': 'glm::uint64',
           'f32': 'glm::float32', 'f64': 'glm::float64'}
    for pfx, cpp in fam.items():
        for Lv in (1, 2, 3, 4):
            add('typedef_family', 'std::is_same<glm::%svec%d, glm::vec<%d, %s, glm::defaultp> >::value' % (pfx, Lv, Lv, cpp), 'glm::%svec%d' % (pfx, Lv))
            for q in ('lowp', 'mediump', 'highp'):
                add('typedef_family', 'std::is_same<glm::%s_%svec%d, glm::vec<%d, %s, glm::%s> >::value' % (q, pfx, Lv, Lv, cpp, q), 'glm::%s_%svec%d' % (q, pfx, Lv))
        if pfx in ('f32', 'f64'):
            for C in (2, 3, 4):
                for Rr in (2, 3, 4):
                    add('typedef_family', 'std::is_same<glm::%smat%dx%d, glm::mat<%d, %d, %s, glm::defaultp> >::value' % (pfx, C, Rr, C, Rr, cpp), 'glm::%smat%dx%d' % (pfx, C, Rr))
                add('typedef_family', 'std::is_same<glm::%smat%d, glm::mat<%d, %d, %s, glm::defaultp> >::value' % (pfx, C, C, C, cpp), 'glm::%smat%d' % (pfx, C))
            add('typedef_family', 'std::is_same<glm::%squat, glm::qua<%s, glm::defaultp> >::value' % (pfx, cpp), 'glm::%squat' % pfx)
    core = {'': 'float', 'd': 'double', 'i': 'int', 'u': 'glm::uint', 'b': 'bool'}
    for pfx, cpp in core.items():
        for Lv in (1, 2, 3, 4):
            add('typedef_family', 'std::is_same<glm::%svec%d, glm::vec<%d, %s, glm::defaultp> >::value' % (pfx, Lv, Lv, cpp), 'glm::%svec%d' % (pfx, Lv))
        if pfx in ('', 'd'):
            for C in (2, 3, 4):
                for Rr in (2, 3, 4):
                    add('typedef_family', 'std::is_same<glm::%smat%dx%d, glm::mat<%d, %d, %s, glm::defaultp> >::value' % (pfx, C, Rr, C, Rr, cpp), 'glm::%smat%dx%d' % (pfx, C, Rr))
                add('typedef_family', 'std::is_same<glm::%smat%d, glm::mat<%d, %d, %s, glm::defaultp> >::value' % (pfx, C, C, C, cpp), 'glm::%smat%d' % (pfx, C))
    add('typedef_family', 'std::is_same<glm::quat, glm::qua<float, glm::defaultp> >::value && std::is_same<glm::dquat, glm::qua<double, glm::defaultp> >::value', 'glm::quat / dquat')
    add('default_qualifier', 'glm::defaultp == glm::%s' % dq, 'defaultp is %s in this configuration' % dq)
    if opts.get('aligned'):
        for pfx, cpp in (('', 'float'), ('d', 'double'), ('i', 'int'), ('u', 'glm::uint'), ('b', 'bool')):
            for Lv in (1, 2, 3, 4):
                add('typedef_family', 'std::is_same<glm::aligned_%svec%d, glm::vec<%d, %s, glm::aligned_highp> >::value' % (pfx, Lv, Lv, cpp), 'glm::aligned_%svec%d' % (pfx, Lv))
                add('typedef_family', 'std::is_same<glm::packed_%svec%d, glm::vec<%d, %s, glm::packed_highp> >::value' % (pfx, Lv, Lv, cpp), 'glm::packed_%svec%d' % (pfx, Lv))
        for C in (2, 3, 4):
            for Rr in (2, 3, 4):
                add('typedef_family', 'std::is_same<glm::aligned_mat%dx%d, glm::mat<%d, %d, float, glm::aligned_highp> >::value' % (C, Rr, C, Rr), 'glm::aligned_mat%dx%d' % (C, Rr))
        # every typedef gtc/type_aligned.hpp declares (names enumerated from the header itself): the name spells storage, precision, element type and shape
        import re as _re
        try:
            text = open(os.path.join(B.REPO, 'glm', 'gtc', 'type_aligned.hpp')).read()
        except OSError:
            text = ''
        names = sorted(set(_re.findall(r'\b((?:aligned|packed)_(?:highp_|mediump_|lowp_)?[diub]?(?:vec[1-4]|mat[2-4](?:x[2-4])?))\s*;', text)))
        elem = {'': 'float', 'd': 'double', 'i': 'int', 'u': 'glm::uint', 'b': 'bool'}
        for nm in names:
            m_ = _re.match(r'(aligned|packed)_(highp_|mediump_|lowp_)?([diub]?)(vec|mat)([1-4])(?:x([2-4]))?$', nm)
            st_, pr_, e_, kind_, a_, b_ = m_.groups()
            q_ = '%s_%s' % (st_, (pr_ or 'highp_')[:-1])
            if kind_ == 'vec':
                want = 'glm::vec<%s, %s, glm::%s>' % (a_, elem[e_], q_)
            else:
                if e_ in ('i', 'u', 'b'):
                    continue
                want = 'glm::mat<%s, %s, %s, glm::%s>' % (a_, b_ or a_, elem[e_], q_)
            add('typedef_family', 'std::is_same<glm::%s, %s >::value' % (nm, want), 'glm::%s' % nm)
    return F


def typefact_case(cname, cfg, opts):
    def judge(ctx):
        facts = facts_for(opts)
        work = os.path.join(B.VERIF, '_work', 'C16', 'tf')
        res = TF.run(cfg, facts, work, cname, jobs=2)
        out = []
        for f in facts:
            st, msg = res[f.fid]
            oid = '%s@%s:%s' % (f.rule, cname, f.desc)
            out.append(R.ob(oid, f.rule, st, (f.desc + ' holds (static_assert compiled)') if st == R.PROVED else '%s: %s' % (f.expr, msg),
                            kernel='static_assert(%s); // configuration: %s' % (f.expr, cfg.describe())))
        return out
    return R.Case('typefacts@' + cname, [], judge)


def access_cases(cname, cfg, opts, tier):
    """operator[], value_ptr, make_* under one configuration"""
    cs = []
    types = ['float', 'int', 'double'] if tier == 'quick' else ['float', 'int', 'double', 'int8', 'uint16', 'int64', 'bool']
    wx = bool(opts.get('wxyz'))
    for T in types:
        sc = G.scalar(T)
        for Lv in (1, 2, 3, 4):
            vt = G.vec(Lv, T, 'packed_highp' if not opts.get('default_aligned') else 'packed_highp')
            for i in range(Lv):
                k = K('%s_vidx_%s_%d' % (cfg.name, vt.tag, i), [Par('o', sc, False), Par('v', vt)], '*o = (*v)[%d];' % i, cfg)
                cs.append(sel_case('vec%d<%s>[%d]@%s' % (Lv, T, i, cname), 'index', k, sc, {0: ('v', vt, i)}))
            k = K('%s_vset_%s' % (cfg.name, vt.tag), [Par('o', vt, False), Par('v', vt), Par('s', sc)], '*o = *v; (*o)[%d] = *s;' % (Lv - 1), cfg)
            cs.append(sel_case('vec%d<%s>[%d]=s@%s' % (Lv, T, Lv - 1, cname), 'index', k, vt, {i: (('s', sc, 0) if i == Lv - 1 else ('v', vt, i)) for i in range(Lv)}))
            if T != 'bool':
                for i in range(Lv):
                    k = K('%s_vptr_%s_%d' % (cfg.name, vt.tag, i), [Par('o', sc, False), Par('v', vt)], '*o = value_ptr(*v)[%d];' % i, cfg)
                    cs.append(sel_case('value_ptr(vec%d<%s>)[%d]@%s' % (Lv, T, i, cname), 'value_ptr', k, sc, {0: ('v', vt, i)}))
        if T == 'bool':
            continue
        for C in (2, 3, 4):
            for Rr in (2, 3, 4):
                mt = G.mat(C, Rr, T, 'packed_highp')
                arr = G.Ty('arr', sc.cpp, sc.elem, sc.elem * C * Rr, {i: i * sc.elem for i in range(C * Rr)}, T, (C * Rr,))
                k = K('%s_midx_%s' % (cfg.name, mt.tag), [Par('o', arr, False), Par('m', mt)],
                      ' '.join('o[%d] = (*m)[%d][%d];' % (c * Rr + r, c, r) for c in range(C) for r in range(Rr)), cfg)
                cs.append(sel_case('mat%dx%d<%s>[c][r]@%s' % (C, Rr, T, cname), 'index', k, arr, {c * Rr + r: ('m', mt, (c, r)) for c in range(C) for r in range(Rr)}))
                k = K('%s_mptr_%s' % (cfg.name, mt.tag), [Par('o', arr, False), Par('m', mt)],
                      ' '.join('o[%d] = value_ptr(*m)[%d];' % (i, i) for i in range(C * Rr)), cfg)
                cs.append(sel_case('value_ptr(mat%dx%d<%s>)[c*R+r]@%s' % (C, Rr, T, cname), 'value_ptr', k, arr, {c * Rr + r: ('m', mt, (c, r)) for c in range(C) for r in range(Rr)}))
                dmt = G.mat(C, Rr, T, 'aligned_highp' if opts.get('default_aligned') else 'packed_highp')
                if not opts.get('default_aligned'):
                    # packed default types: the raw array is C*R contiguous T in column-major order
                    k = K('%s_mkmat_%s' % (cfg.name, mt.tag), [Par('o', dmt, False), Par('p', arr)], '*o = make_mat%dx%d(p);' % (C, Rr), cfg)
                    cs.append(sel_case('make_mat%dx%d<%s>@%s' % (C, Rr, T, cname), 'make', k, dmt, {(c, r): ('p', arr, c * Rr + r) for c in range(C) for r in range(Rr)}))
                # round trip through the object's own raw array (the property's wording; also valid for padded aligned columns)
                k = K('%s_rtmat_%s' % (cfg.name, dmt.tag), [Par('o', dmt, False), Par('m', dmt)], '*o = make_mat%dx%d(value_ptr(*m));' % (C, Rr), cfg)
                cs.append(sel_case('make_mat%dx%d(value_ptr(m))<%s>@%s' % (C, Rr, T, cname), 'round_trip', k, dmt, {(c, r): ('m', dmt, (c, r)) for c in range(C) for r in range(Rr)}))
        for C in (2, 3, 4):
            # the square aliases make_mat2 / make_mat3 / make_mat4
            mt = G.mat(C, C, T, 'packed_highp')
            arr = G.Ty('arr', sc.cpp, sc.elem, sc.elem * C * C, {i: i * sc.elem for i in range(C * C)}, T, (C * C,))
            dmt = G.mat(C, C, T, 'aligned_highp' if opts.get('default_aligned') else 'packed_highp')
            if not opts.get('default_aligned'):
                k = K('%s_mkmatsq_%s' % (cfg.name, mt.tag), [Par('o', dmt, False), Par('p', arr)], '*o = make_mat%d(p);' % C, cfg)
                cs.append(sel_case('make_mat%d<%s>@%s' % (C, T, cname), 'make', k, dmt, {(c, r): ('p', arr, c * C + r) for c in range(C) for r in range(C)}))
            k = K('%s_rtmatsq_%s' % (cfg.name, dmt.tag), [Par('o', dmt, False), Par('m', dmt)], '*o = make_mat%d(value_ptr(*m));' % C, cfg)
            cs.append(sel_case('make_mat%d(value_ptr(m))<%s>@%s' % (C, T, cname), 'round_trip', k, dmt, {(c, r): ('m', dmt, (c, r)) for c in range(C) for r in range(C)}))
        for Lo in (1, 2, 3, 4):
            # make_vecN(vecM): the leading min(N, M) components in order (the padding values are not part of the contract and are not judged)
            for Li in (1, 2, 3, 4):
                for Q in (('packed_highp', 'aligned_highp') if opts.get('aligned') else ('packed_highp',)):
                    vo, vi_ = G.vec(Lo, T, Q), G.vec(Li, T, Q)
                    k = K('%s_mkvv_%s_%s' % (cfg.name, vo.tag, vi_.tag), [Par('o', vo, False), Par('v', vi_)], '*o = make_vec%d(*v);' % Lo, cfg)
                    cs.append(sel_case('make_vec%d(vec%d<%s,%s>)@%s' % (Lo, Li, T, Q, cname), 'make', k, vo, {i: ('v', vi_, i) for i in range(min(Lo, Li))}))
        for Lv in (2, 3, 4):
            dvt = G.vec(Lv, T, 'aligned_highp' if opts.get('default_aligned') else 'packed_highp')
            arr = G.Ty('arr', sc.cpp, sc.elem, sc.elem * Lv, {i: i * sc.elem for i in range(Lv)}, T, (Lv,))
            k = K('%s_mkvec_%d%s' % (cfg.name, Lv, sc.tag), [Par('o', dvt, False), Par('p', arr)], '*o = make_vec%d(p);' % Lv, cfg)
            cs.append(sel_case('make_vec%d<%s>@%s' % (Lv, T, cname), 'make', k, dvt, {i: ('p', arr, i) for i in range(Lv)}))
            k = K('%s_rtvec_%s' % (cfg.name, dvt.tag), [Par('o', dvt, False), Par('v', dvt)], '*o = make_vec%d(value_ptr(*v));' % Lv, cfg)
            cs.append(sel_case('make_vec%d(value_ptr(v))<%s>@%s' % (Lv, T, cname), 'round_trip', k, dvt, {i: ('v', dvt, i) for i in range(Lv)}))
        if T in ('float', 'double'):
            qt = G.quat(T, 'packed_highp', wxyz=wx)
            dqt = G.quat(T, 'aligned_highp' if opts.get('default_aligned') else 'packed_highp', wxyz=wx)
            order = 'wxyz' if wx else 'xyzw'
            arr = G.Ty('arr', sc.cpp, sc.elem, sc.elem * 4, {i: i * sc.elem for i in range(4)}, T, (4,))
            for i in range(4):
                k = K('%s_qidx_%s_%d' % (cfg.name, qt.tag, i), [Par('o', sc, False), Par('q', qt)], '*o = (*q)[%d];' % i, cfg)
                cs.append(sel_case('qua<%s>[%d]@%s' % (T, i, cname), 'index', k, sc, {0: ('q', qt, order[i])}))
                k = K('%s_qptr_%s_%d' % (cfg.name, qt.tag, i), [Par('o', sc, False), Par('q', qt)], '*o = value_ptr(*q)[%d];' % i, cfg)
                cs.append(sel_case('value_ptr(qua<%s>)[%d]@%s' % (T, i, cname), 'value_ptr', k, sc, {0: ('q', qt, order[i])}))
            k = K('%s_mkquat_%s' % (cfg.name, qt.tag), [Par('o', dqt, False), Par('p', arr)], '*o = make_quat(p);', cfg)
            cs.append(sel_case('make_quat<%s>@%s' % (T, cname), 'make', k, dqt, {c: ('p', arr, order.index(c)) for c in 'xyzw'}))
            k = K('%s_rtquat_%s' % (cfg.name, dqt.tag), [Par('o', dqt, False), Par('q', dqt)], '*o = make_quat(value_ptr(*q));', cfg)
            cs.append(sel_case('make_quat(value_ptr(q))<%s>@%s' % (T, cname), 'round_trip', k, dqt, {c: ('q', dqt, c) for c in 'xyzw'}))
            for c in 'xyzw':
                k = K('%s_qmem_%s_%s' % (cfg.name, qt.tag, c), [Par('o', sc, False), Par('q', qt)], '*o = q->%s;' % c, cfg)
                cs.append(sel_case('qua<%s>.%s@%s' % (T, c, cname), 'index', k, sc, {0: ('q', qt, c)}))
    return cs


def conversion_cases(cname, cfg, tier):
    """aligned <-> packed conversions keep the element order: component i of the converted vector / matrix is component i of the source, for every
    length, element type and qualifier pair (the SIMD configurations have hand-written load / store / shuffle specialisations for some of them)"""
    cs = []
    types = ['float', 'int', 'uint', 'double'] if tier == 'quick' else ['float', 'int', 'uint', 'double', 'int8', 'uint16', 'int64']
    precs = ['highp'] if tier == 'quick' else ['highp', 'mediump', 'lowp']
    for T in types:
        for Lv in (1, 2, 3, 4):
            for pa in precs:
                for pp in precs:
                    at, pt = G.vec(Lv, T, 'aligned_' + pa), G.vec(Lv, T, 'packed_' + pp)
                    for src, dst, d in ((at, pt, 'aligned_%s->packed_%s' % (pa, pp)), (pt, at, 'packed_%s->aligned_%s' % (pp, pa))):
                        k = K('%s_cv_%s_%s' % (cfg.name, src.tag, dst.tag), [Par('o', dst, False), Par('v', src)], '*o = %s(*v);' % dst.cpp, cfg)
                        cs.append(sel_case('vec%d<%s> %s@%s' % (Lv, T, d, cname), 'aligned_conversion', k, dst, {i: ('v', src, i) for i in range(Lv)}))
                        k = K('%s_as_%s_%s' % (cfg.name, src.tag, dst.tag), [Par('o', dst, False), Par('v', src)], '%s t(*v); *o = t;' % dst.cpp, cfg)
                        cs.append(sel_case('vec%d<%s> copy-init %s@%s' % (Lv, T, d, cname), 'aligned_conversion', k, dst, {i: ('v', src, i) for i in range(Lv)}))
        if T in ('float', 'double', 'int'):
            for C in (2, 3, 4):
                for Rr in (2, 3, 4):
                    at, pt = G.mat(C, Rr, T, 'aligned_highp'), G.mat(C, Rr, T, 'packed_highp')
                    for src, dst, d in ((at, pt, 'aligned->packed'), (pt, at, 'packed->aligned')):
                        k = K('%s_cvm_%s_%s' % (cfg.name, src.tag, dst.tag), [Par('o', dst, False), Par('m', src)], '*o = %s(*m);' % dst.cpp, cfg)
                        cs.append(sel_case('mat%dx%d<%s> %s@%s' % (C, Rr, T, d, cname), 'aligned_conversion', k, dst, {(c, r): ('m', src, (c, r)) for c in range(C) for r in range(Rr)}))
    return cs


def sel_case(name, rule, k, outty, want):
    """every output lane must be exactly the named input lane"""
    def judge(ctx):
        err = ctx.compile_error(k)
        if err:
            return [R.ob(name, 'existence', R.REFUTED, 'cannot be instantiated: ' + err, kernel=k.source())]
        it = ctx.fn(k)
        lanes = L.out_lanes(ctx, k, outty)
        res = []
        for lane, (an, aty, al) in sorted(want.items(), key=lambda x: str(x[0])):
            t = lanes[lane]
            exp = L.in_term(an, aty, al)
            oid = '%s[%s]' % (name, lane)
            if t is exp:
                res.append(R.ob(oid, rule, R.PROVED, 'is input lane %s' % tm.show(exp), kernel=k.source()))
            else:
                pure = t.op in ('in', 'const') or (t.op == 'slice' and t.args[0].op == 'in')
                res.append(R.ob(oid, rule, R.REFUTED if pure else R.UNDECIDED, 'got %s, expected %s' % (tm.show(t, 4), tm.show(exp)), where=R.where_of(it, t), kernel=k.source()))
        return res
    return R.Case(name, [k], judge)


def cases(tier):
    cs = []
    for cname, cfg, opts in configs(tier):
        cs.append(typefact_case(cname, cfg, opts))
    kcfgs = [c for c in configs(tier) if c[0] in ('default', 'XYZW_ONLY', 'QUAT_DATA_WXYZ', 'SWIZZLE', 'SIZE_T_LENGTH', 'DEFAULT_ALIGNED_SSE2', 'CXX98', 'SWIZZLE+WXYZ')]
    for cname, cfg, opts in kcfgs:
        cs += access_cases(cname, cfg, opts, tier)
    for cname, cfg, opts in configs(tier):
        if cname in ('INTRINSICS_SSE2', 'DEFAULT_ALIGNED_SSE2') or (tier == 'thorough' and cname == 'INTRINSICS_AVX2'):
            cs += conversion_cases(cname, cfg, tier)
    cs += canaries()
    return cs


def canaries():
    cfg = Cfg('default', headers=HDR)

    def judge(ctx):
        facts = [TF.Fact('canary', 'offsetof(V, z) == 3 * sizeof(float)', 'deliberately wrong offset', 'vec_member_offset', 'typedef glm::vec<4, float, glm::packed_highp> V;')]
        res = TF.run(cfg, facts, os.path.join(B.VERIF, '_work', 'C16', 'tf'), 'canary')
        st, msg = res['canary']
        return [R.ob('canary:wrong-offset-fact', 'vec_member_offset', st, msg)]
    c1 = R.Case('canary:wrong-offset-fact', [], judge, canary=True)
    v4, sc = G.vec(4, 'float'), G.scalar('float')
    k = K('canary_idx', [Par('o', sc, False), Par('v', v4)], '*o = verif_bad_idx(*v);', cfg, pre='static float verif_bad_idx(glm::vec4 const& v){ return (&v.x)[1]; }')
    c2 = sel_case('canary:index-2-reads-lane-1', 'index', k, sc, {0: ('v', v4, 2)})
    c2.canary = True
    return [c1, c2]


EXPLANATION = ('static: (1) compile-fail witnesses — thousands of static_assert facts about sizeof/alignof/offsetof/member order/length()/typedef families for every vec/mat/qua '
               'instantiation, compiled with -fsyntax-only under each configuration (default, SWIZZLE, XYZW_ONLY, SIZE_T_LENGTH, QUAT_DATA_WXYZ, CTOR_INIT, INTRINSICS at each ISA, '
               'ALIGNED/DEFAULT_ALIGNED gentypes); (2) LaneFlow kernels for operator[], value_ptr and make_* whose output lanes must be exactly the named input lane')
ASSUMPTIONS = ['clang 14 and g++ 12 agree on the Itanium ABI layout of these standard-layout-like aggregates (same target triple)',
               'aligned types without SIMD intrinsics are not a constructible configuration with gcc/clang on Linux (GLM requires MSVC extensions or a SIMD arch); they are analysed together with INTRINSICS']
TRUSTED = ['clang 14 front end (constant evaluation of sizeof/alignof/offsetof)', 'tools/irtool.cc', 'laneflow term normaliser']
LEVEL = 'proof'
