"""C07 — float <-> half conversion, decided by exhaustive *shape* analysis.

The conversions are pure bit manipulation.  Their input space is partitioned into finitely many shapes — sign symbolic, exponent field a constant,
and for the places where the code looks at individual mantissa bits (the renormalisation loop of subnormal halves, the rounding bit and the carry
chain of the increment) the deciding bit positions fixed and all remaining mantissa bits symbolic.  On each shape the lane term derived from the
instantiated code (loops peeled by the optimiser, the residual back edge must be dead) is normalised and must be *identical* to the bit pattern the
IEEE-754 definition prescribes for that shape.  The shapes cover every input, so each rule holds for all 2^16 / 2^32 patterns:

  half_to_float    unpackHalf1x16(h): +-0, the 10 subnormal shapes (leading one at p: exponent 103 + p, remaining bits left-aligned), the 30 normal
                   exponents (rebias by 112, mantissa << 13), infinities and NaN (sign and payload kept): the binary32 encoding of the binary16 value
  roundtrip        packHalf1x16(unpackHalf1x16(h)) == h on every shape (NaN payloads included)
  float_to_half    packHalf1x16(f): magnitudes below 2^-25 -> +-0; 2^-25 <= |f| < 2^-14 -> the subnormal code round-half-up((2^23 + M) / 2^(14 - e));
                   normal range -> ((e << 10) | M >> 13) + bit 12 of M with the carry running into the exponent (so the largest-half rounding boundary
                   65520 and everything above become +-infinity); exponent 255 -> infinity for M == 0, otherwise a NaN (mantissa M >> 13, or 1 when that
                   would be zero); the sign bit is copied in every shape (sign symmetry).  Round-half-up on the discarded bits returns a nearest half and,
                   on an exact tie, the upper neighbour in magnitude — one of the two the property allows.
"""
from laneflow import term as tm
from laneflow import gtypes as G
from laneflow import runner as R
from laneflow import rulelib as L
from laneflow import interp as I
from laneflow.build import K, P as Par, Cfg

CFG = Cfg('half', headers=('glm/glm.hpp', 'glm/gtc/packing.hpp'), peel=12)
U16, F32 = G.scalar('uint16'), G.scalar('float')


def cat(*parts):
    return tm.concat([p for p in parts if p.w])


def c(w, v):
    return tm.const(w, v) if w else tm.zeros(0)


def half_shapes(x):
    """[(description, 16-bit input shape, expected binary32 pattern)] covering all 65536 half patterns; x: the 16-bit input term"""
    s = tm.slice_(x, 15, 1)
    out = [('+-0', cat(c(15, 0), s), cat(c(31, 0), s))]
    for p in range(10):
        low = tm.slice_(x, 0, p) if p else tm.zeros(0)
        mant = cat(low, c(1, 1), c(9 - p, 0))
        out.append(('subnormal, leading one at bit %d' % p, cat(mant, c(5, 0), s), cat(c(23 - p, 0), low, c(8, 103 + p), s)))
    m = tm.slice_(x, 0, 10)
    for e in range(1, 31):
        out.append(('normal, exponent field %d' % e, cat(m, c(5, e), s), cat(c(13, 0), m, c(8, e + 112), s)))
    out.append(('infinity', cat(c(10, 0), c(5, 31), s), cat(c(23, 0), c(8, 255), s)))
    for q in range(10):
        pay = cat(c(q, 0), c(1, 1), tm.slice_(x, q + 1, 9 - q) if 9 - q else tm.zeros(0))
        out.append(('NaN, lowest set payload bit %d' % q, cat(pay, c(5, 31), s), cat(c(13, 0), pay, c(8, 255), s)))
    return out


def incr(parts_bits, w):
    """value + 1 for a w-bit value given as a list of bit terms (low to high) whose low bits are known constants up to the first zero"""
    raise NotImplementedError


def float_shapes(x):
    """[(description, 32-bit input shape, expected 16-bit half code)] covering all 2^32 float patterns"""
    s = tm.slice_(x, 31, 1)
    M = lambda lo, n: tm.slice_(x, lo, n) if n else tm.zeros(0)
    out = []
    allm = M(0, 23)
    # magnitudes below 2^-25 (zero, float subnormals, small normals): half zero of the same sign
    for ef in range(0, 102):
        out.append(('|f| < 2^-25 (exponent field %d)' % ef, cat(allm, c(8, ef), s), cat(c(15, 0), s)))
    # half subnormal range: X = 2^23 + M, code = round-half-up(X / 2^k), k = 14 - e = 126 - ef  (14 .. 24)
    for ef in range(102, 113):
        k = 126 - ef
        # bits of X: positions 0..22 = M, position 23 = 1.  Round bit = X[k-1].
        for rb in (0, 1):
            if k - 1 == 23 and rb == 0:
                continue            # the round bit is the implicit leading one
            low = M(0, k - 1)       # bits below the round bit: symbolic
            if rb == 0:
                mant_in = cat(low, c(1, 0), M(k, 23 - k))
                code = cat(M(k, 23 - k), c(1, 1) if k <= 23 else c(0, 0), c(15 - (24 - k), 0)) if k <= 23 else c(15, 0)
                out.append(('half subnormal, exponent field %d, round bit 0' % ef, cat(mant_in, c(8, ef), s), cat(code, s)))
                continue
            if k - 1 == 23:
                # X >> 24 == 0 and the round bit is the leading one: code 1
                out.append(('half subnormal, exponent field %d (2^-25 <= |f| < 2^-24)' % ef, cat(allm, c(8, ef), s), cat(c(15, 1), s)))
                continue
            # round bit 1: increment X >> k; lowest zero among X bits k..22 at q, or none (then the carry reaches the leading one)
            for q in list(range(k, 23)) + [None]:
                if q is None:
                    mant_in = cat(low, c(1, 1), c(23 - k, (1 << (23 - k)) - 1))
                    # X >> k = 2^(24-k) - 1 ; + 1 = 2^(24-k)
                    code = cat(c(24 - k, 0), c(1, 1), c(15 - (25 - k), 0))
                else:
                    mant_in = cat(low, c(1, 1), c(q - k, (1 << (q - k)) - 1), c(1, 0), M(q + 1, 22 - q))
                    code = cat(c(q - k, 0), c(1, 1), M(q + 1, 22 - q), c(1, 1), c(15 - (24 - k), 0))
                out.append(('half subnormal, exponent field %d, round bit 1, %s' % (ef, 'lowest clear kept bit %s' % q if q is not None else 'all kept bits set'), cat(mant_in, c(8, ef), s), cat(code, s)))
    # normal range: e = ef - 112 in 1..30
    for ef in range(113, 143):
        e = ef - 112
        low = M(0, 12)
        out.append(('normal, exponent field %d, round bit 0' % ef, cat(low, c(1, 0), M(13, 10), c(8, ef), s), cat(M(13, 10), c(5, e), s)))
        for q in list(range(13, 23)) + [None]:
            if q is None:
                mant_in = cat(low, c(1, 1), c(10, 0x3ff))
                code = cat(c(10, 0), c(5, e + 1))             # e + 1 == 31: the infinity code 0x7c00
            else:
                mant_in = cat(low, c(1, 1), c(q - 13, (1 << (q - 13)) - 1), c(1, 0), M(q + 1, 22 - q))
                code = cat(c(q - 13, 0), c(1, 1), M(q + 1, 22 - q), c(5, e))
            out.append(('normal, exponent field %d, round bit 1, %s' % (ef, 'lowest clear kept bit %s' % q if q is not None else 'mantissa all ones (carry into the exponent)'), cat(mant_in, c(8, ef), s), cat(code, s)))
    # beyond the half range: infinity
    for ef in range(143, 255):
        out.append(('|f| >= 2^16 (exponent field %d)' % ef, cat(allm, c(8, ef), s), cat(c(10, 0), c(5, 31), s)))
    # exponent field 255: infinity / NaN
    out.append(('infinity', cat(c(23, 0), c(8, 255), s), cat(c(10, 0), c(5, 31), s)))
    for q in range(13, 23):
        out.append(('NaN, lowest set payload bit %d' % q, cat(M(0, 13), c(q - 13, 0), c(1, 1), M(q + 1, 22 - q), c(8, 255), s), cat(c(q - 13, 0), c(1, 1), M(q + 1, 22 - q), c(5, 31), s)))
    for q in range(0, 13):
        out.append(('NaN, payload only below bit 13 (lowest set bit %d)' % q, cat(c(q, 0), c(1, 1), M(q + 1, 12 - q), c(10, 0), c(8, 255), s), cat(c(10, 1), c(5, 31), s)))
    return out


def shape_case(name, rule, k, inty, outty, shapes_fn, what):
    def judge(ctx):
        err = ctx.compile_error(k)
        if err:
            return [R.ob(name, 'existence', R.REFUTED, 'cannot be instantiated: ' + err, kernel=k.source())]
        it = ctx.fn(k)
        if not it.loop_exceeded.is_false():
            dead = False
        t = I.out_lane(it, 'o', 0, outty.elem)
        x = tm.inp('x', 0, inty.elem * 8)
        ex = it.loop_exceeded.to_term()
        res = []
        shapes = shapes_fn(x)
        for desc, shp, want in shapes:
            assert shp.w == x.w and want.w == t.w, (desc, shp.w, want.w)
            oid = '%s[%s]' % (name, desc)
            if not it.loop_exceeded.is_false():
                e_ = tm.substitute(ex, {x: shp})
                if not (e_.op == 'const' and e_.args[0] == 0):
                    res.append(R.ob(oid, rule, R.UNDECIDED, 'a loop may run longer than the peeled iterations on this shape', kernel=k.source()))
                    continue
            r = tm.substitute(t, {x: shp})
            if r is want:
                res.append(R.ob(oid, rule, R.PROVED, '%s: %s' % (what, tm.show(want, 4)), kernel=k.source()))
                continue
            ins = sorted({y for y in tm.walk(shp) if y.op == 'in'}, key=lambda q_: q_.id) or [x]
            wit = L.int_witness(tm.substitute(t, {x: shp}), want, ins, limit=64)
            pure = all(y.op in ('in', 'slice', 'concat', 'const') for y in tm.walk(r))
            if wit or pure:
                full = None
                if wit:
                    from laneflow import ceval as CE
                    try:
                        full = CE.evaluate(shp, {q_: v for q_, v in zip(ins, wit[0].values())})
                    except Exception:
                        full = None
                res.append(R.ob(oid, rule, R.REFUTED, 'the result is %s, IEEE-754 prescribes %s%s' % (tm.show(r, 5), tm.show(want, 5), (' (input pattern %#x gives %#x, expected %#x)' % (full, wit[1], wit[2])) if (wit and full is not None) else ''),
                                where=R.where_of(it, t), kernel=k.source()))
            else:
                res.append(R.ob(oid, rule, R.UNDECIDED, 'result %s does not normalise to the expected pattern %s' % (tm.show(r, 4), tm.show(want, 4)), kernel=k.source()))
        return res
    return R.Case(name, [k], judge)


def rt_shapes(x):
    return [(d, shp, shp) for d, shp, _ in half_shapes(x)]


def cases(tier):
    ku = K('unpackHalf1x16', [Par('o', F32, False), Par('x', U16)], '*o = unpackHalf1x16(*x);', CFG)
    kd = K('packHalf1x16', [Par('o', U16, False), Par('x', F32)], '*o = packHalf1x16(*x);', CFG)
    kr = K('half_roundtrip', [Par('o', U16, False), Par('x', U16)], '*o = packHalf1x16(unpackHalf1x16(*x));', CFG)
    cs = [shape_case('unpackHalf1x16', 'half_to_float', ku, U16, F32, half_shapes, 'the binary32 encoding of the binary16 value'),
          shape_case('packHalf1x16(unpackHalf1x16(h))', 'roundtrip', kr, U16, U16, rt_shapes, 'the input pattern itself'),
          shape_case('packHalf1x16', 'float_to_half', kd, F32, U16, float_shapes, 'the round-half-up nearest half code')]
    return cs + canaries()


def canaries():
    pre = ('static glm::uint16 verif_bad_half(float f){ glm::uint16 h = glm::packHalf1x16(f); return glm::uint16(h & 0xfffe); }')
    k = K('canary_half', [Par('o', U16, False), Par('x', F32)], '*o = verif_bad_half(*x);', CFG, pre=pre)
    base = shape_case('canary:half-rounding-truncates', 'float_to_half', k, F32, U16, float_shapes, '')

    def judge(ctx):
        res = base.judge(ctx)
        bad = [r for r in res if r['status'] == R.REFUTED]
        r = dict((bad or res)[0])
        r['id'] = 'canary:half-rounding-truncates'
        return [r]
    return [R.Case('canary:half-rounding-truncates', [k], judge, canary=True)]


EXPLANATION = ('static: packHalf1x16 / unpackHalf1x16 (detail::toFloat16 / toFloat32) are instantiated from /repo, the renormalisation loop is peeled and must be dead afterwards; the input space is partitioned into '
               'shapes (sign symbolic, exponent constant, deciding mantissa bits fixed, the others symbolic) that together cover every bit pattern, and on each shape the derived lane term must be identical to the '
               'bit pattern IEEE-754 prescribes')
ASSUMPTIONS = ['round-half-up on the discarded mantissa bits returns a nearest representable half (the upper neighbour in magnitude on an exact tie), which the property allows',
               'monotonicity is not separately decided (it follows from round-half-up being monotone within an exponent and the carry into the exponent)',
               'the lane plumbing of packHalf2x16 / 4x16 / packHalf<L> and the hvec storage types is decided under C06, not here']
TRUSTED = ['clang/LLVM 14 (loop peeling, -O2)', 'tools/irtool.cc', 'laneflow term normaliser (bit placement, constant + known low bits)']
LEVEL = 'proof'
