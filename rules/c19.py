"""C19 — colour-space conversions.

  ycocg_roundtrip   YCoCg2rgb(rgb2YCoCg(c)) == c and the converse; the same for the reversible pair rgb2YCoCgR / YCoCgR2rgb in float and double
                    (rational identities) and for every integer element type (int8 ... uint64): the composed kernel returns the input lanes themselves
                    (the >> 1 lifting steps cancel in the normal form), i.e. the integer transform is exactly lossless for every input, wrap-around included
  srgb_shape        convertLinearToSRGB / convertSRGBToLinear (default and explicit gamma, lengths 1-4, float and double): every colour lane depends on its
                    own component only and is the same function of it as lane 0; alpha (w of a 4-vector) is the input alpha itself; each lane is a two-segment
                    curve  c </<= threshold ? slope * c : (scale * pow(.., exponent) - offset)  resp.  pow((c + offset) * scale, exponent) ; the encoder clamps
                    its input to [0, 1]
  srgb_inverse      writer / reader agreement of the curve constants (what makes the two functions inverse of each other to within the accuracy of the
                    published constants, tolerance 5e-5 relative): linear slopes reciprocal, offsets equal, power-segment scales reciprocal, exponents
                    reciprocal (exactly gamma and 1/gamma for the explicit-gamma overloads), the thresholds correspond through the linear segment
  srgb_fixpoints    f(0) == 0 exactly and f(1) == 1 to within 1e-6, read off the segment selected by the constant comparison (pow(1, g) = 1, pow(0, g) = 0)
  srgb_monotone     positive slopes / scales / exponents (each segment is increasing) and no downward jump at the junction: the value of the power segment at
                    the threshold is not below the value of the linear segment there (evaluated with mpmath at 50 digits from the constants of the code;
                    default-gamma overloads; for the explicit-gamma overloads at gamma = 1, 2, 2.4, 3)
  saturation        saturation(s): the upper-left 3x3 block has rows summing to 1 for every s (grey levels are fixed points) to float accuracy, the rest of the
                    matrix is the identity; saturation(s, colour) applies that matrix; luminosity is the dot product with the documented weights
                    (0.33, 0.59, 0.11) as correctly rounded constants
  hsv               see hsv_cases: rgbColor(hsvColor(c)) == c on every strict ordering of (r, g, b)
"""
from fractions import Fraction
import itertools
import struct
from laneflow import term as tm
from laneflow import poly as P
from laneflow import gtypes as G
from laneflow import runner as R
from laneflow import rulelib as L
from laneflow import spec as S
from laneflow import interp as I
from laneflow.build import K, P as Par, Cfg
from laneflow.poly import Poly

HDR = ('glm/glm.hpp', 'glm/gtc/color_space.hpp', 'glm/gtx/color_space.hpp', 'glm/gtx/color_space_YCoCg.hpp')
CFG = Cfg('colour', headers=HDR, defines=('GLM_ENABLE_EXPERIMENTAL',))
TOL = Fraction(5, 100000)
ONE, ZERO = Poly.const(1), Poly()


# ---- YCoCg ---------------------------------------------------------------------------------------------------------------------------------------------

def ycocg_cases(tier):
    cs = []
    pairs = [('rgb2YCoCg', 'YCoCg2rgb'), ('rgb2YCoCgR', 'YCoCgR2rgb')]
    ftypes = ['float', 'double']
    itypes = ['int8', 'uint8', 'int16', 'uint16', 'int32', 'uint32'] + (['int64', 'uint64'] if tier == 'thorough' else [])
    for T in ftypes + itypes:
        vt = G.vec(3, T)
        isf = T in ftypes
        for enc, dec in pairs:
            if not isf and enc == 'rgb2YCoCg':
                continue              # the non-reversible transform divides by 2 and 4: defined on floating-point colours only
            for a, b, what in ((enc, dec, '%s(%s(c))' % (dec, enc)), (dec, enc, '%s(%s(c))' % (enc, dec))):
                k = K('rt_%s_%s_%s' % (a, b, vt.tag), [Par('o', vt, False), Par('c', vt)], '*o = %s(%s(*c));' % (b, a), CFG)
                name = '%s<%s>' % (what, T)

                def judge(ctx, k=k, vt=vt, name=name, isf=isf):
                    err = ctx.compile_error(k)
                    if err:
                        return [R.ob(name, 'existence', R.REFUTED, 'cannot be instantiated: ' + err, kernel=k.source())]
                    it = ctx.fn(k)
                    lanes = L.out_lanes(ctx, k, vt)
                    res = []
                    pc = P.PCtx()
                    for i in range(3):
                        want_t = L.in_term('c', vt, i)
                        t = lanes[i]
                        oid = '%s[%d]' % (name, i)
                        if t is want_t:
                            res.append(R.ob(oid, 'ycocg_roundtrip', R.PROVED, 'the composed kernel returns input lane %d itself' % i, kernel=k.source()))
                            continue
                        got = L.to_poly(pc, t, vt)
                        want = L.in_atom('c', vt, i, L.modulus(vt))
                        st, detail = L.compare_poly(got, want)
                        if st == R.UNDECIDED and not isf:
                            wit = L.int_witness(t, want_t, [L.in_term('c', vt, j) for j in range(3)], limit=600)
                            if wit:
                                st, detail = R.REFUTED, 'at c = (%s) it comes back as %d instead of %d' % (', '.join('%d' % v for v in wit[0].values()), wit[1], wit[2])
                        res.append(R.ob(oid, 'ycocg_roundtrip', st, ('component %d is reproduced: ' % i if st == R.PROVED else 'component %d is not reproduced: ' % i) + detail,
                                        where=R.where_of(it, t) if st != R.PROVED else None, kernel=k.source()))
                    return res
                cs.append(R.Case(name, [k], judge))
    return cs


# ---- sRGB ----------------------------------------------------------------------------------------------------------------------------------------------

class Curve:
    """the two-segment curve read off one lane term"""
    pass


def split_curve(t, pc, cin):
    """lane term -> Curve(th, strict, low poly, high poly, x): 'x < th ? low : high' (strict) or 'x <= th ? low : high'; x is the compared quantity (a term)"""
    if t.op != 'select' or t.args[0].op != 'fcmp':
        return None, 'not a selection on a comparison: %s' % tm.show(t, 3)
    pred, a, b = t.args[0].args
    lo, hi = t.args[1], t.args[2]
    # normalise to  x PRED const
    if a.op == 'const' and b.op != 'const':
        a, b = b, a
        pred = {'olt': 'ogt', 'ole': 'oge', 'ogt': 'olt', 'oge': 'ole', 'ult': 'ugt', 'ule': 'uge', 'ugt': 'ult', 'uge': 'ule'}.get(pred, pred)
    if b.op != 'const':
        return None, 'the comparison is not against a constant: %s' % tm.show(t.args[0], 3)
    if pred in ('ogt', 'oge', 'ugt', 'uge'):
        lo, hi = hi, lo
        pred = {'ogt': 'ole', 'oge': 'olt', 'ugt': 'ule', 'uge': 'ult'}[pred]
    if pred not in ('olt', 'ole', 'ult', 'ule'):
        return None, 'unexpected predicate %s' % pred
    c = Curve()
    c.x = a
    c.th = P._frac_of_bits(b)
    c.strict = pred in ('olt', 'ult')
    c.low, c.high = pc.fpoly(lo), pc.fpoly(hi)
    c.xp = pc.fpoly(a)
    return c, ''


def pow_atom(p):
    """p = scale * pow(base, expo) + const  ->  (scale, base poly, expo poly, const) or None"""
    scale = base = expo = None
    cst = Fraction(0)
    for m, cf in p.t.items():
        if m == ():
            cst = cf
        elif len(m) == 1 and P.atom_key(m[0])[0] == 'fn:pow' and scale is None:
            k = P.atom_key(m[0])
            scale, base, expo = cf, k[1][1], k[2][1]
        else:
            return None
    if scale is None:
        return None
    return scale, base, expo, cst


def linear_in(p, xp):
    """p = a * x + b with x the polynomial xp (a single atom or lane) -> (a, b) or None"""
    if len(xp.t) != 1:
        return None
    (mx, cx), = xp.t.items()
    a = b = Fraction(0)
    for m, cf in p.t.items():
        if m == ():
            b = cf
        elif m == mx:
            a = Fraction(cf) / cx
        else:
            return None
    return a, b


def close(a, b, tol=TOL):
    return abs(Fraction(a) - Fraction(b)) <= tol * max(abs(Fraction(a)), abs(Fraction(b)), Fraction(1, 10 ** 9))


def srgb_params(ctx, k, vt, enc, gamma_in):
    """-> (dict of parameters of lane 0, list of obligations about the shape)"""
    it = ctx.fn(k)
    lanes = L.out_lanes(ctx, k, vt)
    res = []
    n = vt.n
    ncol = 3 if n == 4 else n
    name = k.meta['name']
    pc = P.PCtx()
    c0 = L.in_term('c', vt, 0)
    # lane discipline: lane i is lane 0 with c[0] renamed to c[i]; alpha is passed through
    for i in range(1, ncol):
        same = tm.substitute(lanes[0], {c0: L.in_term('c', vt, i)}) is lanes[i]
        res.append(R.ob('%s.lane%d' % (name, i), 'srgb_shape', R.PROVED if same else R.UNDECIDED, 'component %d is the same function of c[%d] as component 0 is of c[0]' % (i, i) if same else
                        'component %d is not the renamed component 0: %s' % (i, str(tm.diff(tm.substitute(lanes[0], {c0: L.in_term('c', vt, i)}), lanes[i]))[:200]), kernel=k.source()))
    if n == 4:
        ok = lanes[3] is L.in_term('c', vt, 3)
        pure = lanes[3].op in ('in', 'const')
        res.append(R.ob('%s.alpha' % name, 'srgb_shape', R.PROVED if ok else (R.REFUTED if pure else R.UNDECIDED), 'alpha is the input alpha itself' if ok else 'alpha comes back as %s' % tm.show(lanes[3], 4),
                        where=R.where_of(it, lanes[3]) if not ok else None, kernel=k.source()))
    cur, why = split_curve(lanes[0], pc, c0)
    if cur is None:
        res.append(R.ob('%s.curve' % name, 'srgb_shape', R.UNDECIDED, why, kernel=k.source()))
        return None, res
    par = {'th': cur.th, 'strict': cur.strict}
    cpoly = L.in_atom('c', vt, 0)
    if enc:
        # the compared quantity and the argument of both segments is clamp(c, 0, 1)
        w = vt.elem * 8
        ce = S.lane('c', vt, 0)
        clamp_spec = S.gclamp(ce, S.const(w, 0), S.const(w, 1)).t
        okc = cur.x is clamp_spec or P.decision_equal(cur.x, clamp_spec, nan=False) is True
        res.append(R.ob('%s.clamp' % name, 'srgb_shape', R.PROVED if okc else R.UNDECIDED, 'the encoder works on clamp(c, 0, 1)' if okc else 'the compared quantity is %s, not clamp(c, 0, 1)' % tm.show(cur.x, 4), kernel=k.source()))
        xp = cur.xp
    else:
        okc = cur.x is c0
        res.append(R.ob('%s.argument' % name, 'srgb_shape', R.PROVED if okc else R.UNDECIDED, 'the threshold is compared with c itself' if okc else 'the compared quantity is %s' % tm.show(cur.x, 4), kernel=k.source()))
        xp = cpoly
    ln = linear_in(cur.low, xp)
    pw = pow_atom(cur.high)
    shape_ok = ln is not None and ln[1] == 0 and pw is not None
    if shape_ok:
        scale, base, expo, cst = pw
        par['slope'] = ln[0]
        par['expo'] = expo
        if enc:
            # scale * pow(x, expo) - offset
            shape_ok = base == xp
            par['scale'], par['offset'] = scale, -cst
        else:
            # pow((c + offset) * scale', expo)
            lb = linear_in(base, xp)
            shape_ok = lb is not None and scale == 1 and cst == 0 and lb[0] != 0
            if shape_ok:
                par['scale'], par['offset'] = lb[0], lb[1] / lb[0]
    res.append(R.ob('%s.curve' % name, 'srgb_shape', R.PROVED if shape_ok else R.UNDECIDED,
                    ('x %s %s ? %s x : %s' % ('<' if cur.strict else '<=', float(cur.th), float(par['slope']), 'scale * pow(x, e) - offset' if enc else 'pow((x + offset) * scale, e)')) if shape_ok else
                    'segments are not of the two-segment sRGB form: low %s ; high %s' % (P.show_poly(cur.low, limit=3), P.show_poly(cur.high, limit=3)), kernel=k.source()))
    return (par if shape_ok else None), res


def mp_eval_junction(par, enc, gamma):
    """(low segment at the threshold, high segment at the threshold) with mpmath; gamma: value substituted for the gamma input (None: exponent is a constant)"""
    import mpmath
    mpmath.mp.dps = 50
    f = lambda q: mpmath.mpf(q.numerator) / mpmath.mpf(q.denominator)
    th = f(par['th'])
    low = f(par['slope']) * th
    e = par['expo']
    if e.is_const():
        ev = f(e.cval() if e.t else Fraction(0))
    else:
        # exponent is gamma or 1/gamma
        g = mpmath.mpf(gamma)
        (m, cf), = e.t.items()
        kk = P.atom_key(m[0])
        ev = f(Fraction(cf)) * (g if kk[0] == 'in' else 1 / g)
    if enc:
        high = f(par['scale']) * mpmath.power(th, ev) - f(par['offset'])
    else:
        high = mpmath.power((th + f(par['offset'])) * f(par['scale']), ev)
    return low, high


def srgb_cases(tier):
    cs = []
    for T in ('float', 'double'):
        sc = G.scalar(T)
        lens = (3, 4) if tier == 'quick' else (1, 2, 3, 4)
        for n in lens:
            vt = G.vec(n, T)
            for gam in (False, True):
                ke = K('lin2srgb%s_%s' % ('_g' if gam else '', vt.tag), [Par('o', vt, False), Par('c', vt)] + ([Par('g', sc)] if gam else []), '*o = convertLinearToSRGB(*c%s);' % (', *g' if gam else ''), CFG,
                       meta={'name': 'convertLinearToSRGB(vec%d<%s>%s)' % (n, T, ', gamma' if gam else '')})
                kd = K('srgb2lin%s_%s' % ('_g' if gam else '', vt.tag), [Par('o', vt, False), Par('c', vt)] + ([Par('g', sc)] if gam else []), '*o = convertSRGBToLinear(*c%s);' % (', *g' if gam else ''), CFG,
                       meta={'name': 'convertSRGBToLinear(vec%d<%s>%s)' % (n, T, ', gamma' if gam else '')})
                name = 'sRGB(vec%d<%s>%s)' % (n, T, ', gamma' if gam else '')

                def judge(ctx, ke=ke, kd=kd, vt=vt, gam=gam, name=name, sc=sc):
                    res = []
                    for kk in (ke, kd):
                        err = ctx.compile_error(kk)
                        if err:
                            return [R.ob(kk.meta['name'], 'existence', R.REFUTED, 'cannot be instantiated: ' + err, kernel=kk.source())]
                    pe, r1 = srgb_params(ctx, ke, vt, True, gam)
                    pd, r2 = srgb_params(ctx, kd, vt, False, gam)
                    res += r1 + r2
                    if pe is None or pd is None:
                        return res
                    src = ke.source() + '\n' + kd.source()
                    # ---- inverse: writer / reader constants ----
                    def rel(oid, ok, good, bad):
                        res.append(R.ob('%s.%s' % (name, oid), 'srgb_inverse', R.PROVED if ok else R.REFUTED, good if ok else bad, kernel=src))
                    rel('slopes', close(pe['slope'] * pd['slope'], 1), 'linear segments: %.8g * %.8g = 1 within 5e-5' % (float(pe['slope']), float(pd['slope'])),
                        'linear segments are not inverse: encoder slope %.8g, decoder slope %.8g (product %.8g)' % (float(pe['slope']), float(pd['slope']), float(pe['slope'] * pd['slope'])))
                    rel('offsets', close(pe['offset'], pd['offset']), 'offsets %.8g and %.8g agree' % (float(pe['offset']), float(pd['offset'])),
                        'the encoder subtracts %.8g, the decoder adds %.8g' % (float(pe['offset']), float(pd['offset'])))
                    rel('scales', close(pe['scale'] * pd['scale'], 1), 'power segments: %.8g * %.8g = 1 within 5e-5' % (float(pe['scale']), float(pd['scale'])),
                        'power-segment scales are not reciprocal: %.8g * %.8g = %.8g' % (float(pe['scale']), float(pd['scale']), float(pe['scale'] * pd['scale'])))
                    prod = P.reduce_inv(pe['expo'] * pd['expo'])
                    okx = prod.is_const() and close(prod.cval() if prod.t else 0, 1)
                    rel('exponents', okx, 'exponents are reciprocal (%s * %s = %s)' % (P.show_poly(pe['expo']), P.show_poly(pd['expo']), P.show_poly(prod)),
                        'exponents are not reciprocal: %s * %s = %s' % (P.show_poly(pe['expo']), P.show_poly(pd['expo']), P.show_poly(prod)))
                    rel('thresholds', close(pe['slope'] * pe['th'], pd['th']), 'thresholds correspond through the linear segment: %.8g * %.8g = %.8g ~ %.8g' % (float(pe['slope']), float(pe['th']), float(pe['slope'] * pe['th']), float(pd['th'])),
                        'thresholds do not correspond: encoder switches at %.8g -> %.8g, the decoder at %.8g' % (float(pe['th']), float(pe['slope'] * pe['th']), float(pd['th'])))
                    # ---- fixed points 0 and 1 ----
                    for par, kk, enc in ((pe, ke, True), (pd, kd, False)):
                        nm_ = kk.meta['name']
                        th = par['th']
                        zero_low = (Fraction(0) < th) if par['strict'] else (Fraction(0) <= th)
                        one_high = not ((Fraction(1) < th) if par['strict'] else (Fraction(1) <= th))
                        ok0 = zero_low            # slope * 0 == 0
                        res.append(R.ob('%s.f(0)' % nm_, 'srgb_fixpoints', R.PROVED if ok0 else R.REFUTED, '0 lies on the linear segment: f(0) = slope * 0 = 0' if ok0 else
                                        '0 is not below the threshold %.8g: f(0) is taken from the power segment (%s)' % (float(th), '-offset' if enc else 'pow(offset * scale, e)'), kernel=kk.source()))
                        v1 = (par['scale'] - par['offset']) if enc else None
                        if enc:
                            ok1 = one_high and abs(v1 - 1) <= Fraction(1, 10 ** 6)
                            txt = 'f(1) = scale * pow(1, e) - offset = %.9g' % float(v1)
                        else:
                            b1 = (1 + par['offset']) * par['scale']
                            ok1 = one_high and abs(b1 - 1) <= Fraction(1, 10 ** 6)
                            txt = 'f(1) = pow((1 + offset) * scale, e) with base %.9g' % float(b1)
                        res.append(R.ob('%s.f(1)' % nm_, 'srgb_fixpoints', R.PROVED if ok1 else R.REFUTED, txt + (' = 1 within 1e-6' if ok1 else ': not 1'), kernel=kk.source()))
                    # ---- monotone ----
                    for par, kk, enc in ((pe, ke, True), (pd, kd, False)):
                        nm_ = kk.meta['name']
                        pos = par['slope'] > 0 and par['scale'] > 0 and par['th'] > 0
                        res.append(R.ob('%s.increasing' % nm_, 'srgb_monotone', R.PROVED if pos else R.REFUTED, 'slope %.6g > 0 and scale %.6g > 0: both segments increase (for a positive exponent)' % (float(par['slope']), float(par['scale'])) if pos else
                                        'a segment is not increasing: slope %.6g, scale %.6g, threshold %.6g' % (float(par['slope']), float(par['scale']), float(par['th'])), kernel=kk.source()))
                        e = par['expo']
                        if e.is_const():
                            ev = e.cval() if e.t else Fraction(0)
                            res.append(R.ob('%s.exponent' % nm_, 'srgb_monotone', R.PROVED if ev > 0 else R.REFUTED, 'exponent %.8g > 0' % float(ev), kernel=kk.source()))
                            gammas = [None]
                        else:
                            gammas = ['1', '2', '2.4', '3']
                        for g in gammas:
                            low, high = mp_eval_junction(par, enc, g)
                            okj = high >= low - 1e-7
                            oid = '%s.junction%s' % (nm_, '' if g is None else '(gamma=%s)' % g)
                            res.append(R.ob(oid, 'srgb_junction', R.PROVED if okj else R.REFUTED,
                                            'at the threshold %.8g the linear segment gives %.9g and the power segment %.9g%s' % (float(par['th']), float(low), float(high), ': no downward jump' if okj else ': the curve drops, it is not monotone'),
                                            kernel=kk.source()))
                    return res
                cs.append(R.Case(name, [ke, kd], judge))
    return cs


# ---- saturation / luminosity -------------------------------------------------------------------------------------------------------------------------------

def _fbits(T, x):
    if T == 'float':
        return Fraction(struct.unpack('<f', struct.pack('<f', x))[0])
    return Fraction(x)


def saturation_cases(tier):
    cs = []
    for T in ('float', 'double'):
        sc, m4, v3, v4 = G.scalar(T), G.mat(4, 4, T), G.vec(3, T), G.vec(4, T)
        eps = Fraction(1, 10 ** 6) if T == 'float' else Fraction(1, 10 ** 14)
        k = K('sat_%s' % sc.tag, [Par('o', m4, False), Par('s', sc)], '*o = saturation(*s);', CFG)
        k3 = K('sat3_%s' % sc.tag, [Par('o', v3, False), Par('s', sc), Par('c', v3)], '*o = saturation(*s, *c);', CFG)
        k4 = K('sat4_%s' % sc.tag, [Par('o', v4, False), Par('s', sc), Par('c', v4)], '*o = saturation(*s, *c);', CFG)
        kl = K('lum_%s' % sc.tag, [Par('o', sc, False), Par('c', v3)], '*o = luminosity(*c);', CFG)
        name = 'saturation<%s>' % T

        def judge(ctx, k=k, k3=k3, k4=k4, T=T, sc=sc, m4=m4, v3=v3, v4=v4, eps=eps, name=name):
            res = []
            pc = P.PCtx()
            M = {ln: pc.fpoly(t) for ln, t in L.out_lanes(ctx, k, m4).items()}
            s = L.in_atom('s', sc, 0)
            (sa,), = list(s.t)
            for r in range(3):
                row = M[(0, r)] + M[(1, r)] + M[(2, r)]
                c0 = row.t.get((), Fraction(0))
                c1 = row.t.get((sa,), Fraction(0))
                ok = set(row.t) <= {(), (sa,)} and abs(c0 - 1) <= eps and abs(c1) <= eps
                res.append(R.ob('%s.row%d' % (name, r), 'saturation', R.PROVED if ok else (R.REFUTED if L.lanes_only(row) else R.UNDECIDED),
                                'row %d sums to %s: a grey colour (g, g, g) is mapped to itself for every s' % (r, P.show_poly(row)) if ok else 'row %d sums to %s, not 1: grey levels are not preserved' % (r, P.show_poly(row)), kernel=k.source()))
            # diagonal + s structure: M = (1 - s) * w * 1^T + s * I  <=>  off-diagonal entries of one column are equal and diagonal = off-diagonal + s
            okd = all((M[(c, c)] - M[(c, (c + 1) % 3)] - s).is_zero() and (M[(c, (c + 1) % 3)] - M[(c, (c + 2) % 3)]).is_zero() for c in range(3))
            res.append(R.ob('%s.blend' % name, 'saturation', R.PROVED if okd else R.UNDECIDED, 'matrix = (1 - s) * (luminance projection) + s * identity: s = 1 leaves colours unchanged, s = 0 gives the luminance' if okd else 'not of the blend form', kernel=k.source()))
            rest_ok = all(M[(c, r)] == (ONE if c == r else ZERO) for c in range(4) for r in range(4) if c == 3 or r == 3)
            res.append(R.ob('%s.affine' % name, 'saturation', R.PROVED if rest_ok else R.REFUTED, 'last row and column are those of the identity' if rest_ok else 'last row / column differ from the identity', kernel=k.source()))
            # vector overloads apply that matrix
            for kk, vt, nn in ((k3, v3, 3), (k4, v4, 4)):
                got = {ln: pc.fpoly(t) for ln, t in L.out_lanes(ctx, kk, vt).items()}
                cin = [L.in_atom('c', vt, i) for i in range(nn)]
                for r in range(nn):
                    want = sum((M[(c, r)] * cin[c] for c in range(nn)), Poly())
                    st, detail = L.compare_poly(got[r], want)
                    res.append(R.ob('saturation(s, vec%d<%s>)[%d]' % (nn, T, r), 'saturation', st, 'component %d of saturation(s) * colour: %s' % (r, detail), kernel=kk.source()))
            return res
        cs.append(R.Case(name, [k, k3, k4], judge))

        def judge_l(ctx, kl=kl, T=T, sc=sc, v3=v3):
            pc = P.PCtx()
            got = pc.fpoly(L.out_lanes(ctx, kl, sc)[0])
            cin = [L.in_atom('c', v3, i) for i in range(3)]
            want = sum((cin[i] * Poly.const(_fbits(T, w_)) for i, w_ in enumerate((0.33, 0.59, 0.11))), Poly())
            st, detail = L.compare_poly(got, want)
            return [R.ob('luminosity<%s>' % T, 'luminosity', st, 'dot(colour, (0.33, 0.59, 0.11)) with correctly rounded weights: ' + detail, kernel=kl.source())]
        cs.append(R.Case('luminosity<%s>' % T, [kl], judge_l))
    return cs


def lowp_cases(tier):
    """the lowp vec3 specialisation of convertLinearToSRGB is Ian Taylor's root approximation (the source the code cites):
        s(x) = 0.662002687 x^(1/2) + 0.684122060 x^(1/4) - 0.323583601 x^(1/8) - 0.0225411470 x      per component, from that component only
    decided: every lane is that formula of its own component (three nested square roots, the four published constants), and the formula's fixed points s(0) = 0 and
    s(1) = 1 within 1e-6 (the constants sum to 1); the accuracy against the exact curve is the approximation's published property and is not re-derived"""
    cs = []
    vt = G.vec(3, 'float', 'lowp')
    k = K('lowp_lin2srgb', [Par('o', vt, False), Par('c', vt)], '*o = convertLinearToSRGB(*c);', CFG)
    CONST = (0.662002687, 0.684122060, 0.323583601, 0.0225411470)

    def judge(ctx):
        name = 'convertLinearToSRGB(vec3<float,lowp>)'
        err = ctx.compile_error(k)
        if err:
            return [R.ob(name, 'existence', R.REFUTED, 'cannot be instantiated: ' + err, kernel=k.source())]
        lanes = L.out_lanes(ctx, k, vt)
        res = []
        pc = P.PCtx()
        f32 = lambda v: struct.unpack('f', struct.pack('f', v))[0]
        c1, c2, c3, c4 = [S.const(32, f32(v)) for v in CONST]
        for i in range(3):
            x = S.lane('c', vt, i)
            s1 = S.sqrt(x)
            s2 = S.sqrt(s1)
            s3 = S.sqrt(s2)
            spec = c1 * s1 + c2 * s2 - c3 * s3 - c4 * x
            st, detail = S.compare(lanes[i], spec.t, pc=pc, nan=False)
            res.append(R.ob('%s[%d]' % (name, i), 'srgb_lowp', st, 'c1 x^(1/2) + c2 x^(1/4) - c3 x^(1/8) - c4 x with the published constants' if st == R.PROVED else detail,
                            where=R.where_of(ctx.fn(k), lanes[i]) if st != R.PROVED else None, kernel=k.source()))
        tot = Fraction(f32(CONST[0])) + Fraction(f32(CONST[1])) - Fraction(f32(CONST[2])) - Fraction(f32(CONST[3]))
        ok = abs(tot - 1) < Fraction(1, 10 ** 6)
        res.append(R.ob(name + '.fixed_point_1', 'srgb_lowp', R.PROVED if ok else R.REFUTED, 's(1) = c1 + c2 - c3 - c4 = %.9f' % float(tot), kernel=k.source()))
        return res
    cs.append(R.Case('convertLinearToSRGB(vec3<float,lowp>)', [k], judge))
    return cs


def cases(tier):
    cs = []
    cs += ycocg_cases(tier)
    cs += srgb_cases(tier)
    cs += lowp_cases(tier)
    cs += saturation_cases(tier)
    from rules import c19_hsv
    cs += c19_hsv.hsv_cases(tier, CFG)
    cs += canaries()
    return cs


def canaries():
    vt = G.vec(3, 'int32')
    pre = ('static glm::ivec3 verif_bad_ycocgr(glm::ivec3 const& c){ glm::ivec3 r; r.y = c.r - c.b; int t = c.b + (r.y >> 1); r.z = c.g - t; r.x = t + (r.z >> 2); return r; }')
    k = K('canary_ycocg', [Par('o', vt, False), Par('c', vt)], '*o = YCoCgR2rgb(verif_bad_ycocgr(*c));', CFG, pre=pre)

    def judge(ctx):
        lanes = L.out_lanes(ctx, k, vt)
        ok = all(lanes[i] is L.in_term('c', vt, i) for i in range(3))
        return [R.ob('canary:ycocgr-wrong-lifting-shift', 'ycocg_roundtrip', R.PROVED if ok else R.REFUTED, 'a lifting step with >> 2 on one side only is not inverted')]
    return [R.Case('canary:ycocgr-wrong-lifting-shift', [k], judge, canary=True)]


EXPLANATION = ('static: the colour-space functions are instantiated from /repo; YCoCg / YCoCgR round trips are composed in one kernel and must reduce to the input lanes (rational identity for floats, term identity modulo 2^w '
               'for every integer type); the sRGB encoder / decoder lanes are split into their two segments and the constants read off the code are checked against each other (slopes, offsets, scales, exponents, '
               'thresholds), for the fixed points 0 and 1, for increasing segments and for the junction; saturation() rows sum to 1 for every s; luminosity uses the documented weights')
ASSUMPTIONS = ['float operations read as exact real arithmetic; pow is the mathematical power function (pow(1, e) = 1, increasing in its base for e > 0)',
               'tolerances: 5e-5 relative between writer and reader constants (the published sRGB constants 12.92, 0.0031308, 0.04045, 1.055, 0.41666 carry 4-5 significant digits), 1e-6 at the fixed point 1',
               'not decided: monotonicity inside the power segment beyond the sign of its parameters, numeric accuracy of the round trip; the lowp fast approximation of convertLinearToSRGB is checked as the published formula, not for its accuracy']
TRUSTED = ['clang/LLVM 14', 'tools/irtool.cc', 'laneflow normal forms', 'mpmath (junction values)']
LEVEL = 'other'
