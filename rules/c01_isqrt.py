"""C01, lowp clause: "on lowp-qualified types only, within the accuracy of GLM's deliberate fast approximations (inversesqrt: relative error below 2^-8)".

The lane term of inversesqrt(vec<L, float, lowp>) is analysed by abstract interpretation in the interval domain over a partition of the input range:

  shape     the lane must be   Y * (c1 - ((x * c2) * Y) * Y)   with   Y = bits-as-float(MAGIC - (bits(x) >> 1))   (any association / operand order of the
            products); anything else is UNDECIDED.
  scaling   bits(x) = (E << 23) | M with E = 2j + p:  bits(x) >> 1 = (j << 23) + (p << 22) + (M >> 1), so Y's pattern is B - (j << 23) with B independent of j:
            Y(j) = Y(0) * 2^-j exactly while Y stays normal, x * Y^2 is independent of j, hence the result scales by exactly 2^-j like 1 / sqrt(x) and the relative
            error depends on (p, M) only.  It is therefore bounded on E in {127, 128} (x in [1, 4)).
  bound     [1, 4) is cut into 2 * 2^14 mantissa intervals; on each one Y is monotone (a larger pattern of x gives a smaller pattern of Y), so Y lies between its
            values at the interval ends (computed exactly from the constants of the term), and the relative error  y * sqrt(x) - 1  is bounded by interval
            arithmetic with outward rounding, plus 3 * 2^-24 for the three float roundings of the formula.  Intervals whose bound is not below 2^-8 are halved
            up to 6 times; if a bound still reaches 2^-8 the error of the derived term is evaluated exactly at the interval's midpoint: a value above 2^-8 is a
            witness (REFUTED), otherwise UNDECIDED.
"""
import math
import struct
from laneflow import term as tm
from laneflow import runner as R

LIMIT = 2.0 ** -8


def _b2f(b):
    return struct.unpack('<f', struct.pack('<I', b & 0xffffffff))[0]


def _f2b(x):
    return struct.unpack('<I', struct.pack('<f', x))[0]


def _up(x):
    return math.nextafter(x, math.inf)


def _dn(x):
    return math.nextafter(x, -math.inf)


def match(t, xin):
    """(magic, c1, c2) if t is Y * (c1 - ((x * c2) * Y) * Y) up to association, else None"""
    w = xin.w
    def flat(u):
        if u.op == 'fmul':
            return flat(u.args[0]) + flat(u.args[1])
        return [u]
    def is_y(u):
        if u.op == 'sub' and u.args[0].op == 'const' and u.args[1] is tm.concat([tm.slice_(xin, 1, w - 1), tm.zeros(1)]):
            return u.args[0].args[0]
        return None
    fs = flat(t)
    ys = [f for f in fs if is_y(f) is not None]
    rest = [f for f in fs if is_y(f) is None]
    if len(ys) != 1 or len(rest) != 1 or rest[0].op != 'fsub' or rest[0].args[0].op != 'const':
        return None
    magic = is_y(ys[0])
    c1 = tm.fval(rest[0].args[0])
    inner = flat(rest[0].args[1])
    iy = [f for f in inner if is_y(f) is not None]
    ic = [f for f in inner if f.op == 'const']
    ix = [f for f in inner if f is xin]
    if len(iy) != 2 or len(ic) != 1 or len(ix) != 1 or len(inner) != 4 or any(is_y(f) != magic for f in iy):
        return None
    return magic, c1, tm.fval(ic[0])


def rel_err_bounds(magic, c1, c2, lo_bits, hi_bits):
    """interval of y * sqrt(x) - 1 for bits(x) in [lo_bits, hi_bits] (one binade, positive normal)"""
    xl, xh = _b2f(lo_bits), _b2f(hi_bits)
    yl, yh = _b2f(magic - (hi_bits >> 1)), _b2f(magic - (lo_bits >> 1))          # Y decreases when x grows
    if not (0 < yl <= yh < math.inf):
        return None
    # inner = c1 - c2 * x * Y^2   (c2, x, Y > 0)
    pl, ph = _dn(_dn(c2 * xl) * _dn(yl * yl)), _up(_up(c2 * xh) * _up(yh * yh))
    il, ih = _dn(c1 - ph), _up(c1 - pl)
    cands = [yl * il, yl * ih, yh * il, yh * ih]
    rl, rh = _dn(min(cands)), _up(max(cands))
    sl, sh = _dn(math.sqrt(xl)), _up(math.sqrt(xh))
    cands = [rl * sl, rl * sh, rh * sl, rh * sh]
    slack = 3 * 2.0 ** -24 * 1.01
    return _dn(min(cands)) - 1 - slack, _up(max(cands)) - 1 + slack


def exact_err(magic, c1, c2, bits):
    f32 = lambda v: _b2f(_f2b(v))
    x = _b2f(bits)
    y = _b2f(magic - (bits >> 1))
    r = f32(y * f32(c1 - f32(f32(f32(x * c2) * y) * y)))
    return r * math.sqrt(x) - 1


def analyse(t, xin):
    m = match(t, xin)
    if m is None:
        return R.UNDECIDED, 'the lane is not of the form Y (c1 - c2 x Y^2) with Y = float(MAGIC - (bits(x) >> 1)): %s' % tm.show(t, 5)
    magic, c1, c2 = m
    worst = 0.0
    open_ = []
    n0 = 1 << 14
    step = (1 << 23) // n0
    for E in (127, 128):
        base = E << 23
        stack = [(base + i * step, base + (i + 1) * step - 1, 0) for i in range(n0)]
        while stack:
            lo, hi, depth = stack.pop()
            b = rel_err_bounds(magic, c1, c2, lo, hi)
            if b is None:
                return R.UNDECIDED, 'the first guess is not a positive normal float on x in [1, 4) (magic %#x)' % magic
            mag = max(abs(b[0]), abs(b[1]))
            if mag < LIMIT:
                worst = max(worst, mag)
                continue
            if depth < 6 and hi > lo:
                mid = (lo + hi) // 2
                stack.append((lo, mid, depth + 1))
                stack.append((mid + 1, hi, depth + 1))
                continue
            for bits in ((lo + hi) // 2, lo, hi):
                e = exact_err(magic, c1, c2, bits)
                if abs(e) >= LIMIT:
                    return R.REFUTED, ('relative error %.4g%% at x = %r (pattern %#x; every x * 4^k behaves alike): above the 2^-8 = 0.39%% the property grants the lowp approximation '
                                       '(magic constant %#x, Newton step %g - %g x y^2)' % (100 * abs(e), _b2f(bits), bits, magic, c1, c2))
            open_.append((mag, lo, hi))
    if open_:
        mag, lo, hi = max(open_)
        return R.UNDECIDED, 'the interval bound (up to %.4g%% on patterns [%#x, %#x], %d intervals) is not below 2^-8 and no exceeding point was found' % (100 * mag, lo, hi, len(open_))
    return R.PROVED, ('|y sqrt(x) - 1| <= %.4g%% < 2^-8 on [1, 4) (2 x 2^14 mantissa intervals, outward-rounded interval arithmetic), hence for every normal x by the exact 4^k scaling of the bit trick '
                      '(magic %#x, Newton step %g - %g x y^2)' % (100 * worst, magic, c1, c2))
