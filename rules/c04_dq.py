"""C04, dual quaternions (gtx/dual_quaternion): the rigid transform (q, d) -- rotation by the unit quaternion q, translation t = vector part of 2 d conj(q) --
has the same four forms as the rotation alone, and they must agree (both quaternion memory orders, float and double):

  dq_product    (p * o).real == p.real o.real,  (p * o).dual == p.real o.dual + p.dual o.real      (Hamilton products)
  dq_transform  dq * vec3 == q (0,v) conj(q) + t   (mod |q| = 1);  vec3 * dq == inverse(dq) * vec3;  vec4 forms pass w through
  dq_inverse    dq * inverse(dq) == (1; 0)   (mod |q| = 1)
  dq_matrix     mat3x4_cast(dq): row i of the 3x4 matrix is (row i of the rotation matrix of q, t_i), i.e. M (v, 1) == dq * v;
                mat2x4_cast / dualquat_cast(mat2x4) are the selections by component name
  dq_cast       dualquat_cast(mat3x4_cast(dq)) is dq or -dq: on every branch of the largest-component selection the real part is parallel to q with unit norm and
                the dual part carries the same sign (got.dual_i q_j == d_i got.real_j); a refutation exhibits a rational unit quaternion (Pythagorean quadruple)
                at which the exactly evaluated result is neither dq nor -dq
"""
import itertools
from fractions import Fraction
import math
import struct
from laneflow import term as tm
from laneflow import poly as P
from laneflow import gtypes as G
from laneflow import runner as R
from laneflow import rulelib as L
from laneflow import exact as X
from laneflow.build import K, P as Par, Cfg
from laneflow.poly import Poly

# only the extension's own header after glm.hpp: a function of the extension that needs another extension to be included first does not "exist" for its users
HDR = ('glm/glm.hpp', 'glm/gtx/dual_quaternion.hpp')
CFGS = {'xyzw': Cfg('dq_xyzw', headers=HDR, defines=('GLM_ENABLE_EXPERIMENTAL',)),
        'wxyz': Cfg('dq_wxyz', headers=HDR, defines=('GLM_ENABLE_EXPERIMENTAL', 'GLM_FORCE_QUAT_DATA_WXYZ'))}
ONE, ZERO = Poly.const(1), Poly()


def dqin(name, dq):
    return (tuple(L.in_atom(name, dq, ('real', c)) for c in 'wxyz'), tuple(L.in_atom(name, dq, ('dual', c)) for c in 'wxyz'))


def dqlanes(pl):
    return (tuple(pl[('real', c)] for c in 'wxyz'), tuple(pl[('dual', c)] for c in 'wxyz'))


def unit_quads():
    """rational unit quaternions: Pythagorean quadruples / n in every arrangement and sign pattern (so that each component is the largest one somewhere, with either sign,
    and the trace 4 w^2 - 1 of the rotation matrix takes both signs)"""
    base = [((1, 2, 2, 4), 5), ((2, 4, 5, 6), 9), ((1, 1, 3, 5), 6), ((1, 3, 3, 9), 10), ((0, 1, 2, 2), 3), ((0, 2, 3, 6), 7), ((1, 1, 1, 1), 2), ((0, 0, 3, 4), 5), ((1, 2, 4, 10), 11),
            ((2, 2, 3, 8), 9), ((1, 4, 4, 4), 7)]
    seen = set()
    for quad, n in base:
        for perm in sorted(set(itertools.permutations(quad))):
            for sg in itertools.product((1, -1), repeat=4):
                c = tuple(Fraction(p_ * s_, n) for p_, s_ in zip(perm, sg))
                if c not in seen:
                    seen.add(c)
                    yield c


def cases(tier, H):
    """H: the rules.c04 module (helpers shared with the quaternion rules)"""
    cs = []
    for T in ('float', 'double'):
        for lay in ('xyzw', 'wxyz'):
            cs += type_cases(T, lay, tier, H)
    return cs


def type_cases(T, lay, tier, H):
    cs = []
    cfg = CFGS[lay]
    wx = lay == 'wxyz'
    sc = G.scalar(T)
    tg = '%s,%s' % (sc.tag, lay)
    kt = '%s_%s' % (sc.tag, lay)
    dq, qt, v3, v4 = G.dualquat(T, wxyz=wx), G.quat(T, wxyz=wx), G.vec(3, T), G.vec(4, T)
    m24, m34 = G.mat(2, 4, T), G.mat(3, 4, T)
    pX, pY, pV = Par('x', dq), Par('y', dq), Par('v', v3)

    def case(name, kernels, body):
        ks = kernels if isinstance(kernels, (list, tuple)) else [kernels]
        nm = '%s<%s>' % (name, tg)
        cs.append(R.Case(nm, list(ks), H.guard(nm, ks, lambda ctx: body(ctx, nm))))

    def kq(name, params, body_, out):
        return K('dq_%s_%s' % (name, kt), [Par('o', out, False)] + params, body_, cfg)

    def translation(q, d):
        t = H.qmul(d, H.qconj(q))
        return [t[i].scale(2) for i in (1, 2, 3)]

    # ---- product ------------------------------------------------------------------------------------------------------------------------
    km = kq('mul', [pX, pY], '*o = *x * *y;', dq)

    def body(ctx, nm):
        pc = P.PCtx()
        gr, gd = dqlanes(H.poly_lanes(ctx, km, dq, pc))
        (xr, xd), (yr, yd) = dqin('x', dq), dqin('y', dq)
        wr = H.qmul(xr, yr)
        a, b = H.qmul(xr, yd), H.qmul(xd, yr)
        wd = tuple(a[i] + b[i] for i in range(4))
        res = []
        for i, c in enumerate('wxyz'):
            res.append(H.judge_identity('%s[real.%s]' % (nm, c), 'dq_product', gr[i], wr[i], km.source(), text='real part == x.real y.real'))
            res.append(H.judge_identity('%s[dual.%s]' % (nm, c), 'dq_product', gd[i], wd[i], km.source(), text='dual part == x.real y.dual + x.dual y.real'))
        return res
    case('dualquat*dualquat', km, body)

    # ---- transform of points ------------------------------------------------------------------------------------------------------------
    def xf_case(nm_, k, outty, n, inv=False):
        def body(ctx, nm):
            pc = P.PCtx()
            got = H.poly_lanes(ctx, k, outty, pc)
            q, d = dqin('x', dq)
            v = [L.in_atom('v', v4 if n == 4 else v3, i) for i in range(n)]
            if inv:
                # the inverse rigid transform: v -> conj(q) (v - t) q
                t = translation(q, d)
                want = H.sandwich(H.qconj(q), [v[i] - t[i] for i in range(3)])[1:]
            else:
                rot = H.sandwich(q, v)
                t = translation(q, d)
                want = [rot[i + 1] + t[i] for i in range(3)]
            nrm = lambda p_: H.unit(P.reduce_inv(H.renorm_atoms(p_, lambda x_: H.unit(x_, q), pc)), q)
            res = [H.judge_identity('%s[%d]' % (nm, i), 'dq_transform', got[i], want[i], k.source(), norm=nrm, spheres=H.sph(q),
                                    text='component %d == %s for unit x.real' % (i, 'conj(q) (0, v - t) q, t = 2 d conj(q)' if inv else 'q (0,v) conj(q) + 2 (d conj(q))')) for i in range(3)]
            if n == 4:
                res.append(H.judge_identity('%s[3]' % nm, 'dq_transform', got[3], v[3], k.source(), text='w passes through'))
            return res
        case(nm_, k, body)
    xf_case('dualquat*vec3', kq('xv3', [pX, pV], '*o = *x * *v;', v3), v3, 3)
    xf_case('dualquat*vec4', kq('xv4', [pX, Par('v', v4)], '*o = *x * *v;', v4), v4, 4)
    xf_case('vec3*dualquat', kq('v3x', [pX, pV], '*o = *v * *x;', v3), v3, 3, inv=True)
    xf_case('vec4*dualquat', kq('v4x', [pX, Par('v', v4)], '*o = *v * *x;', v4), v4, 4, inv=True)

    # ---- inverse ----------------------------------------------------------------------------------------------------------------------
    ki = kq('inv', [pX], '*o = inverse(*x);', dq)

    def body(ctx, nm):
        pc = P.PCtx()
        gr, gd = dqlanes(H.poly_lanes(ctx, ki, dq, pc))
        q, d = dqin('x', dq)
        pr = H.qmul(q, gr)
        a, b = H.qmul(q, gd), H.qmul(d, gr)
        pd = tuple(a[i] + b[i] for i in range(4))
        nrm = lambda p_: H.unit(p_, q)
        res = []
        for i, c in enumerate('wxyz'):
            res.append(H.judge_identity('%s.x*inverse(x)[real.%s]' % (nm, c), 'dq_inverse', pr[i], ONE if i == 0 else ZERO, ki.source(), norm=nrm, spheres=H.sph(q),
                                        text='real part of x * inverse(x) == (1,0,0,0) for unit x.real'))
            res.append(H.judge_identity('%s.x*inverse(x)[dual.%s]' % (nm, c), 'dq_inverse', pd[i], ZERO, ki.source(), norm=nrm, spheres=H.sph(q),
                                        text='dual part of x * inverse(x) == 0 for unit x.real'))
        return res
    case('inverse(dualquat)', ki, body)

    # ---- matrices ---------------------------------------------------------------------------------------------------------------------
    k24 = [kq('m24', [pX], '*o = mat2x4_cast(*x);', m24), kq('from_m24', [Par('m', m24)], '*o = dualquat_cast(*m);', dq),
           kq('ctor_m24', [Par('m', m24)], '*o = %s(*m);' % dq.cpp, dq)]

    def body(ctx, nm):
        res = []
        a = L.out_lanes(ctx, k24[0], m24)
        for col, part in enumerate(('real', 'dual')):
            for r, c in enumerate('xyzw'):
                want = L.in_term('x', dq, (part, c))
                ok = a[(col, r)] is want
                res.append(R.ob('%s.mat2x4_cast[(%d, %d)]' % (nm, col, r), 'dq_matrix', R.PROVED if ok else R.REFUTED,
                                'column %d row %d is x.%s.%s' % (col, r, part, c) if ok else 'column %d row %d is %s, not x.%s.%s' % (col, r, tm.show(a[(col, r)], 3), part, c), kernel=k24[0].source()))
        for kk, what in ((k24[1], 'dualquat_cast(mat2x4)'), (k24[2], 'tdualquat(mat2x4)')):
            b = L.out_lanes(ctx, kk, dq)
            for col, part in enumerate(('real', 'dual')):
                for r, c in enumerate('xyzw'):
                    want = L.in_term('m', m24, (col, r))
                    ok = b[(part, c)] is want
                    res.append(R.ob('%s.%s[%s.%s]' % (nm, what, part, c), 'dq_matrix', R.PROVED if ok else R.REFUTED,
                                    '%s.%s is m[%d][%d]' % (part, c, col, r) if ok else '%s.%s is %s, not m[%d][%d]' % (part, c, tm.show(b[(part, c)], 3), col, r), kernel=kk.source()))
        return res
    case('mat2x4<->dualquat', k24, body)

    k34 = kq('m34', [pX], '*o = mat3x4_cast(*x);', m34)

    def body(ctx, nm):
        pc = P.PCtx()
        got = H.poly_lanes(ctx, k34, m34, pc)
        q, d = dqin('x', dq)
        t = translation(q, d)
        nrm = lambda p_: H.unit(P.reduce_inv(H.renorm_atoms(p_, lambda x_: H.unit(x_, q), pc)), q)
        res = []
        for i in range(3):
            for j in range(3):
                e = [ONE if jj == j else ZERO for jj in range(3)]
                want = H.sandwich(q, e)[i + 1]
                res.append(H.judge_identity('%s[(%d, %d)]' % (nm, i, j), 'dq_matrix', got[(i, j)], want, k34.source(), norm=nrm, spheres=H.sph(q),
                                            text='m[%d][%d] == entry (%d, %d) of the rotation matrix of x.real (the 3x4 matrix is stored by rows)' % (i, j, i, j)))
            res.append(H.judge_identity('%s[(%d, 3)]' % (nm, i), 'dq_matrix', got[(i, 3)], t[i], k34.source(), norm=nrm, spheres=H.sph(q),
                                        text='m[%d][3] == component %d of the translation 2 d conj(q)' % (i, i)))
        return res
    case('mat3x4_cast(dualquat)', k34, body)

    # ---- constructor from rotation and translation --------------------------------------------------------------------------------------
    pQ, pT = Par('q', qt), Par('t', v3)
    kc = kq('ctor_qt', [pQ, pT], '*o = %s(*q, *t);' % dq.cpp, dq)

    def half_tq(q, t):
        r = H.qmul((ZERO, t[0], t[1], t[2]), q)
        return tuple(x_.scale(Fraction(1, 2)) for x_ in r)

    def body(ctx, nm):
        pc = P.PCtx()
        gr, gd = dqlanes(H.poly_lanes(ctx, kc, dq, pc))
        q = tuple(L.in_atom('q', qt, c) for c in 'wxyz')
        t = [L.in_atom('t', v3, i) for i in range(3)]
        wd = half_tq(q, t)
        res = []
        for i, c in enumerate('wxyz'):
            res.append(H.judge_identity('%s[real.%s]' % (nm, c), 'dq_ctor', gr[i], q[i], kc.source(), text='real part is the rotation'))
            res.append(H.judge_identity('%s[dual.%s]' % (nm, c), 'dq_ctor', gd[i], wd[i], kc.source(), text='dual part == (0, t) q / 2'))
        return res
    case('tdualquat(q,t)', kc, body)

    # ---- dualquat_cast(mat3x4_cast(x)) == +-x for the unit dual quaternion x = (q, (0,t) q / 2) -------------------------------------------------
    for what, expr in (('dualquat_cast(mat3x4_cast(x))', 'dualquat_cast(mat3x4_cast(%s(*q, *t)))' % dq.cpp), ('tdualquat(mat3x4_cast(x))', '%s(mat3x4_cast(%s(*q, *t)))' % (dq.cpp, dq.cpp))):
        krt = kq('rt_' + ('cast' if what.startswith('dualquat_cast') else 'ctor'), [pQ, pT], '*o = %s;' % expr, dq)

        def body(ctx, nm, krt=krt):
            lanes = L.out_lanes(ctx, krt, dq)
            keys = [('real', c) for c in 'wxyz'] + [('dual', c) for c in 'wxyz']
            terms = [lanes[k_] for k_ in keys]
            q = tuple(L.in_atom('q', qt, c) for c in 'wxyz')
            t = [L.in_atom('t', v3, i) for i in range(3)]
            d = half_tq(q, t)
            res = []
            # (1) exact evaluation on rational unit quaternions: a result that is neither x nor -x is a refutation with the witness
            inq = [L.in_term('q', qt, c) for c in 'wxyz']
            int_ = [L.in_term('t', v3, i) for i in range(3)]
            bad, evaluated = None, 0
            for tv in ((Fraction(1), Fraction(-2), Fraction(3)), (Fraction(-1, 3), Fraction(0), Fraction(5))):
                for cand in unit_quads():
                    env = dict(zip(inq, cand))
                    env.update(zip(int_, tv))
                    try:
                        ev = X.Eval(env)
                        got = [ev.f(t_) for t_ in terms]
                    except (X.NoValue, ZeroDivisionError):
                        continue
                    evaluated += 1
                    cq = tuple(Poly.const(c_) for c_ in cand)
                    cd = half_tq(cq, [Poly.const(c_) for c_ in tv])
                    want = list(cand) + [x_.cval() if not x_.is_zero() else Fraction(0) for x_ in cd]
                    if got != want and got != [-x_ for x_ in want]:
                        bad = (env, got, want)
                        break
                if bad:
                    break
            if bad:
                env, got, want = bad
                wrong = [i for i, (g_, w_) in enumerate(zip(got, want)) if g_ != w_] if got[:4] == want[:4] or got[:4] != [-x_ for x_ in want[:4]] else [i for i, (g_, w_) in enumerate(zip(got, want)) if g_ != -w_]
                res.append(R.ob(nm + '.witness', 'dq_cast', R.REFUTED,
                                'at the unit dual quaternion x = (q, (0,t) q / 2) with %s the result is (%s), neither x = (%s) nor -x' % (X.show_env(env), ', '.join(map(str, got)), ', '.join(map(str, want))),
                                where=R.where_of(ctx.fn(krt), terms[wrong[0] if wrong else 0]), kernel=krt.source()))
                return res
            # (2) proof per branch of the largest-component selection
            er = H.enumerate_rows(terms)
            if er is None:
                return [R.ob(nm, 'dq_cast', R.UNDECIDED, 'more than 12 comparison atoms')]
            rows, atoms, infos = er
            distinct = {}
            for vals, got, ctxd in rows:
                distinct.setdefault(tuple(g.key() for g in got), (vals, got, ctxd))
            for bi, (key, (vals, got, ctxd)) in enumerate(sorted(distinct.items(), key=lambda kv: str(kv[1][0]))):
                oid = '%s.branch%d' % (nm, bi)
                ok = False
                why = ''
                for elim in range(4):
                    (ea,), = [m for m in q[elim].t]
                    repl = ONE - sum((q[j] * q[j] for j in range(4) if j != elim), Poly())
                    post = lambda x_, ea=ea, repl=repl: P.reduce_ideal(x_, ea, repl, deg=2)
                    gn = tuple(H.renorm_atoms(g, post, ctxd) for g in got)
                    gr, gd = gn[:4], gn[4:]
                    ok_par = all(H.zero_in_all_sign_cases(gr[i] * q[j] - gr[j] * q[i], ctxd, post) for i in range(4) for j in range(i + 1, 4))
                    ok_n = ok_par and H.zero_in_all_sign_cases(H.qnorm2(gr) - ONE, ctxd, post)
                    ok_d = ok_n and all(H.zero_in_all_sign_cases(gd[i] * q[j] - d[i] * gr[j], ctxd, post) for i in range(4) for j in range(4))
                    if ok_par and ok_n and ok_d:
                        ok = True
                        break
                    why = 'real part parallel to q: %s, unit: %s, dual part with the same sign: %s' % (ok_par, ok_n, ok_d)
                res.append(R.ob(oid, 'dq_cast', R.PROVED if ok else R.UNDECIDED,
                                'real part parallel to q with unit norm and dual_i q_j == ((0,t) q / 2)_i real_j: the result is x or -x (also evaluated exactly at %d rational unit dual quaternions)' % evaluated
                                if ok else why, kernel=krt.source()))
            if len(distinct) < 4:
                res.append(R.ob(nm + '.branches', 'dq_cast', R.UNDECIDED, 'expected the four largest-component branches, found %d distinct results' % len(distinct)))
            return res
        case(what, krt, body)
    return cs


def canaries(H):
    dq = G.dualquat('float')
    v3 = G.vec(3, 'float')
    pre = ('static glm::vec3 verif_bad_dqxf(glm::dualquat const& q, glm::vec3 const& v){ glm::vec3 r(q.real.x, q.real.y, q.real.z), d(q.dual.x, q.dual.y, q.dual.z); '
           'return (glm::cross(r, glm::cross(r, v) + v * q.real.w + d) + d * q.real.w + r * q.dual.w) * 2.f + v; }')      # sign of the real * dual.w term
    k = K('canary_dqxf', [Par('o', v3, False), Par('x', dq), Par('v', v3)], '*o = verif_bad_dqxf(*x, *v);', CFGS['xyzw'], pre=pre)

    def judge(ctx):
        pc = P.PCtx()
        got = H.poly_lanes(ctx, k, v3, pc)
        q, d = dqin('x', dq)
        v = [L.in_atom('v', v3, i) for i in range(3)]
        t = H.qmul(d, H.qconj(q))
        want = H.sandwich(q, v)[1] + t[1].scale(2)
        return [H.judge_identity('canary:dualquat-translation-sign[0]', 'dq_transform', got[0], want, k.source(), norm=lambda p_: H.unit(p_, q), spheres=H.sph(q))]
    return [R.Case('canary:dualquat-translation-sign', [k], judge, canary=True)]


# ---- ext/quaternion_exponential -------------------------------------------------------------------------------------------------------------------

def exponential_cases(tier, H):
    """exp / log / pow / sqrt of quaternions (ext/quaternion_exponential):
      exp(q)   = (cos |u|, u sin |u| / |u|) for the vector part u, and the identity when |u| < epsilon
      log(q)   = (log(|q|^2) / 2, u atan2(|u|, w) / |u|) for |u| >= epsilon; (log w, 0, 0, 0), (log -w, pi, 0, 0) for a real quaternion
      pow      the real-number shortcut (pow(w, y), 0, 0, 0) may only be taken when the squared vector part is below epsilon^2 (a unit quaternion with vector part v has
               pow(q, y) with vector part of length |sin(y theta)| ~ y |v|: dropping it is an error of that size);  sqrt(q) == pow(q, 1/2)
    every result lane must be defined (no uninitialised component on any path)"""
    from laneflow import spec as S
    EXH = ('glm/glm.hpp', 'glm/gtc/quaternion.hpp', 'glm/ext/quaternion_exponential.hpp')
    cfgs = {'xyzw': Cfg('qexp_xyzw', headers=EXH, defines=('GLM_ENABLE_EXPERIMENTAL',)), 'wxyz': Cfg('qexp_wxyz', headers=EXH, defines=('GLM_ENABLE_EXPERIMENTAL', 'GLM_FORCE_QUAT_DATA_WXYZ'))}
    cs = []
    for T in ('float', 'double'):
        for lay, cfg in cfgs.items():
            sc = G.scalar(T)
            w = sc.elem * 8
            qt = G.quat(T, wxyz=(lay == 'wxyz'))
            tg = '%s,%s' % (sc.tag, lay)
            eps = 2.0 ** -23 if w == 32 else 2.0 ** -52
            q = {c: S.lane('q', qt, c) for c in 'wxyz'}
            u = [q['x'], q['y'], q['z']]
            lu = S.sqrt(S.dot(u, u))
            zero, one = S.const(w, 0.0), S.const(w, 1.0)

            def lanes_case(name, k, spec, qt=qt):
                def body(ctx):
                    lanes = L.out_lanes(ctx, k, qt)
                    res = []
                    pc = P.PCtx()
                    for c in 'wxyz':
                        t = lanes[c]
                        oid = '%s[%s]' % (name, c)
                        und = [x for x in tm.walk(t) if x.op == 'undef' or (x.op == 'in' and x.args[0] == 'o')]
                        if und:
                            res.append(R.ob(oid, 'q_exponential', R.REFUTED, 'the component is uninitialised on some path (a default-constructed quaternion is returned: its value is indeterminate unless GLM_FORCE_CTOR_INIT is defined): %s' % tm.show(t, 3),
                                            where=R.where_of(ctx.fn(k), t), kernel=k.source()))
                            continue
                        sp = spec[c].t
                        infc = tm.fconst(t.w, float('inf'))
                        if any(x is infc for x in tm.walk(sp)):
                            # the infinite constant has no place in a polynomial normal form: it is read as one more symbol on both sides
                            sym = {infc: tm.inp('+infinity', 0, t.w)}
                            t, sp = tm.substitute(t, sym), tm.substitute(sp, sym)
                        st, detail = S.compare(t, sp, pc=pc, nan=False)
                        res.append(R.ob(oid, 'q_exponential', st, detail, where=R.where_of(ctx.fn(k), t) if st != R.PROVED else None, kernel=k.source()))
                    return res
                return R.Case(name, [k], H.guard(name, [k], body))
            ke = K('qexp_%s_%s' % (sc.tag, lay), [Par('o', qt, False), Par('q', qt)], '*o = exp(*q);', cfg)
            small = lu.lt(eps)
            sn = S.fn('sin', lu)
            spec_e = {'w': S.sel(small, one, S.fn('cos', lu))}
            for i, c in enumerate('xyz'):
                spec_e[c] = S.sel(small, zero, sn * (u[i] / lu))
            cs.append(lanes_case('exp(q)<%s>' % tg, ke, spec_e))
            # log: the general arm and the three real-quaternion arms
            kl = K('qlog_%s_%s' % (sc.tag, lay), [Par('o', qt, False), Par('q', qt)], '*o = log(*q);', cfg)
            inf, pi_ = S.E(tm.fconst(w, float('inf'))), S.const(w, math.pi if w == 64 else float(struct.unpack('f', struct.pack('f', math.pi))[0]))
            pos, neg = q['w'].gt(0.0), q['w'].lt(0.0)
            tl = S.fn('atan2', lu, q['w']) / lu
            spec_l = {'w': S.sel(small, S.sel(pos, S.fn('log', q['w']), S.sel(neg, S.fn('log', -q['w']), inf)), 0.5 * S.fn('log', lu * lu + q['w'] * q['w'])),
                      'x': S.sel(small, S.sel(pos, zero, S.sel(neg, pi_, inf)), tl * q['x'])}
            for c in 'yz':
                spec_l[c] = S.sel(small, S.sel(pos, zero, S.sel(neg, zero, inf)), tl * q[c])
            cs.append(lanes_case('log(q)<%s>' % tg, kl, spec_l))
            # pow: threshold of the real-number shortcut
            kp = K('qpow_%s_%s' % (sc.tag, lay), [Par('o', qt, False), Par('q', qt), Par('y', sc)], '*o = pow(*q, *y);', cfg)

            def jpow(ctx, kp=kp, tg=tg, qt=qt, eps=eps, q=q):
                name = 'pow(q,y)<%s>' % tg
                lanes = L.out_lanes(ctx, kp, qt)
                pc = P.PCtx()
                v2 = pc.fpoly(S.dot([q['x'], q['y'], q['z']], [q['x'], q['y'], q['z']]).t)
                found = []
                for c in 'xyz':
                    for x in tm.walk(lanes[c]):
                        if x.op == 'fcmp' and x.args[0] in ('olt', 'ole', 'ogt', 'oge', 'ult', 'ule', 'ugt', 'uge'):
                            a_, b_ = x.args[1], x.args[2]
                            for lhs, rhs in ((a_, b_), (b_, a_)):
                                if rhs.op == 'const':
                                    try:
                                        if pc.fpoly(lhs) == v2:
                                            found.append(tm.fval(rhs))
                                    except (P.NonFinite, P.TooBig):
                                        pass
                if not found:
                    return [R.ob(name + '.real_shortcut', 'q_exponential', R.UNDECIDED, 'no comparison of the squared vector part with a constant found', kernel=kp.source())]
                thr = max(found)
                ok = thr <= eps * eps
                return [R.ob(name + '.real_shortcut', 'q_exponential', R.PROVED if ok else R.REFUTED,
                             'the real-number shortcut is taken only for a squared vector part below %g (<= epsilon^2)' % thr if ok else
                             'the real-number shortcut (pow(w, y), 0, 0, 0) is taken whenever x^2 + y^2 + z^2 < %g: a unit quaternion with a vector part of length up to %g loses its rotation (error about y times that length)' % (thr, thr ** 0.5),
                             where=R.where_of(ctx.fn(kp), lanes['x']) if not ok else None, kernel=kp.source())]
            cs.append(R.Case('pow(q,y)<%s>' % tg, [kp], H.guard('pow(q,y)<%s>' % tg, [kp], jpow)))
            ks = K('qsqrt_%s_%s' % (sc.tag, lay), [Par('o', qt, False), Par('q', qt)], '*o = sqrt(*q);', cfg)
            ks2 = K('qsqrt_ref_%s_%s' % (sc.tag, lay), [Par('o', qt, False), Par('q', qt)], '*o = pow(*q, %s(0.5));' % sc.cpp, cfg)

            def jsq(ctx, ks=ks, ks2=ks2, tg=tg, qt=qt):
                a, b = L.out_lanes(ctx, ks, qt), L.out_lanes(ctx, ks2, qt)
                return [R.ob('sqrt(q)<%s>[%s]' % (tg, c), 'q_exponential', R.PROVED if a[c] is b[c] else R.UNDECIDED, 'sqrt(q) is pow(q, 1/2)' if a[c] is b[c] else 'terms differ', kernel=ks.source()) for c in 'wxyz']
            cs.append(R.Case('sqrt(q)<%s>' % tg, [ks, ks2], H.guard('sqrt(q)<%s>' % tg, [ks, ks2], jsq)))
    return cs


def lookat_cases(tier, H):
    """gtc quatLookAt / quatLookAtRH / quatLookAtLH (quaternion of the orthonormal frame (right, up', -+direction)):
      dispatch   quatLookAt is quatLookAtRH, and quatLookAtLH when GLM_FORCE_LEFT_HANDED is defined (identical lane terms)
      mirror     quatLookAtLH(d, up) == quatLookAtRH(-d, up)
      frame      quatLookAtRH(d, up) == quat_cast of the matrix whose third column is -d, whose first column is cross(up, -d) scaled to unit length and whose second
                 column is their cross product (built in the kernel from GLM's own cross / inversesqrt / quat_cast, compared as normal forms)"""
    from laneflow import spec as S
    LH = ('glm/glm.hpp', 'glm/gtc/quaternion.hpp')
    cfgs = [('rh', Cfg('qla_rh', headers=LH), 'RH'), ('lh', Cfg('qla_lh', headers=LH, defines=('GLM_FORCE_LEFT_HANDED',)), 'LH'),
            ('rh_wxyz', Cfg('qla_rh_wxyz', headers=LH, defines=('GLM_FORCE_QUAT_DATA_WXYZ',)), 'RH')]
    cs = []
    for T in (('float', 'double') if tier == 'thorough' else ('float',)):
        sc = G.scalar(T)
        v3 = G.vec(3, T)
        for cn, cfg, hand in cfgs:
            qt = G.quat(T, wxyz=cn.endswith('wxyz'))
            tg = '%s,%s' % (sc.tag, cn)
            ps = [Par('o', qt, False), Par('d', v3), Par('u', v3)]
            kd = K('qla_%s_%s' % (sc.tag, cn), ps, '*o = quatLookAt(*d, *u);', cfg)
            krh = K('qlarh_%s_%s' % (sc.tag, cn), ps, '*o = quatLookAtRH(*d, *u);', cfg)
            klh = K('qlalh_%s_%s' % (sc.tag, cn), ps, '*o = quatLookAtLH(*d, *u);', cfg)
            kmir = K('qlamir_%s_%s' % (sc.tag, cn), ps, '*o = quatLookAtRH(-*d, *u);', cfg)
            kref = K('qlaref_%s_%s' % (sc.tag, cn), ps,
                     '{ typedef glm::vec<3, %s, glm::defaultp> V; V f = -*d; V r = cross(*u, f); r = r * inversesqrt(max(%s(0.00001), dot(r, r))); V n = cross(f, r); '
                     '*o = quat_cast(glm::mat<3, 3, %s, glm::defaultp>(r, n, f)); }' % (sc.cpp, sc.cpp, sc.cpp), cfg)

            def same(name, rule, ka, kb, text, qt=qt):
                def body(ctx):
                    a, b = L.out_lanes(ctx, ka, qt), L.out_lanes(ctx, kb, qt)
                    res = []
                    pc = P.PCtx()
                    for c in 'wxyz':
                        if a[c] is b[c]:
                            st, detail = R.PROVED, text + ' (identical lane term)'
                        else:
                            st, detail = S.compare(a[c], b[c], pc=pc, nan=False)
                            detail = (text + ': ' + detail) if st == R.PROVED else detail.replace('the definition', text)
                        res.append(R.ob('%s[%s]' % (name, c), rule, st, detail, where=R.where_of(ctx.fn(ka), a[c]) if st != R.PROVED else None, kernel=ka.source() + '\n' + kb.source()))
                    return res
                return R.Case(name, [ka, kb], H.guard(name, [ka, kb], body))
            cs.append(same('quatLookAt<%s>.dispatch' % tg, 'lookat_dispatch', kd, krh if hand == 'RH' else klh, 'quatLookAt%s' % hand))
            cs.append(same('quatLookAtLH<%s>.mirror' % tg, 'lookat_frame', klh, kmir, 'quatLookAtRH(-direction, up)'))
            cs.append(same('quatLookAtRH<%s>.frame' % tg, 'lookat_frame', krh, kref, 'quat_cast(mat3(right, cross(-direction, right), -direction))'))
    return cs
