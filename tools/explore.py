#!/usr/bin/env python3-vt
"""developer helper (not a registered check): build ad-hoc kernels and print the lane terms LaneFlow derives.

usage from python:   from tools.explore import show;  show(K(...), outty)  /  terms(K(...), outty)
"""
import os, sys, shutil, tempfile
sys.path.insert(0, os.path.dirname(os.path.dirname(os.path.abspath(__file__))))
from laneflow import build as B, runner as R, rulelib as L, term as tm, interp as I


def ctx_for(kernels, x86=None):
    work = tempfile.mkdtemp(prefix='explore_', dir=os.path.join(R.VERIF, '_work'))
    try:
        index, failures, broken, stats = B.build(kernels, work)
        ctx = R.Ctx(index, failures, x86=x86)
        for k in kernels:
            if not ctx.compile_error(k):
                try:
                    ctx.fn(k)
                except I.Unsupported as e:
                    print('unsupported', k.name, e)
        return ctx
    finally:
        shutil.rmtree(work, ignore_errors=True)


def terms(k, outty, x86=None):
    ctx = ctx_for([k], x86)
    e = ctx.compile_error(k)
    if e:
        raise SystemExit('compile error: ' + e)
    return ctx, L.out_lanes(ctx, k, outty)


def show(k, outty, depth=12, x86=None):
    ctx, lanes = terms(k, outty, x86)
    for lane, t in lanes.items():
        print(lane, tm.show(t, depth))
    return ctx, lanes
