#!/usr/bin/env python3
"""prints the markdown table of DESIGN.md section 8.4 from seeded/*/meta.json"""
import json, glob, os
rows = []
for d in sorted(glob.glob(os.path.join(os.path.dirname(__file__), '..', 'seeded', '*', 'meta.json'))):
    m = json.load(open(d))
    det = m.get('detected_by', '')
    if det.upper().startswith('NOT') or 'missed' in det.lower() and 'after' not in det.lower() and 'exit 1' not in det:
        caught = 'missed'
    elif 'first run' in det and 'after' not in det:
        caught = 'first run'
    elif 'after' in det:
        caught = 'after strengthening'
    else:
        caught = 'first run'
    rows.append('| `%s` | %s | %s | %s |' % (m['seed'], m['breaks'].replace('|', '\\|')[:230], caught, det.replace('|', '\\|')[:330]))
print('| seed | change | caught | by |\n|---|---|---|---|')
print('\n'.join(rows))
