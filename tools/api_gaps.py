#!/usr/bin/env python3-vt
"""developer helper (not a registered check): for every property, the functions defined in its anchor files whose name never appears in the body of a kernel of the property's rule module.
A gap finder for 'whole functions missing from a rule module'."""
import os, re, sys, json, importlib
sys.path.insert(0, os.path.dirname(os.path.dirname(os.path.abspath(__file__))))
sys.setrecursionlimit(20000)
props = [json.loads(l) for l in open('/verif/properties.jsonl')]
only = sys.argv[1:]
for p in props:
    pid = p['id']
    if only and pid not in only:
        continue
    names = {}
    for f in p['anchors']['files']:
        path = os.path.join('/repo', f.split(' ')[0])
        if not os.path.isfile(path) or not path.endswith(('.inl', '.hpp', '.h')):
            continue
        txt = open(path, errors='replace').read()
        for m in re.finditer(r'GLM_FUNC_(?:QUALIFIER|DECL)[^;{()]*?\b([A-Za-z_][A-Za-z0-9_]*)\s*\(', txt):
            n = m.group(1)
            if n in ('call', 'operator', 'vec', 'mat', 'qua', 'tdualquat', 'GLM_CONSTEXPR') or n.startswith('compute_') or n.startswith('glm_'):
                continue
            names.setdefault(n, set()).add(os.path.basename(path))
    try:
        mod = importlib.import_module('rules.' + pid.lower())
        bodies = ' '.join(k.body + ' ' + getattr(k, 'pre', '') for c in mod.cases('thorough') for k in c.kernels)
    except Exception as e:
        print(pid, 'cannot enumerate kernels:', e)
        continue
    missing = sorted(n for n in names if not re.search(r'\b%s\b' % re.escape(n), bodies))
    print('%s: %d functions in anchors, %d never named in a kernel: %s' % (pid, len(names), len(missing), ', '.join('%s(%s)' % (n, '/'.join(sorted(names[n]))[:30]) for n in missing)))
