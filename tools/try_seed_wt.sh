#!/bin/sh
# usage: tools/try_seed_wt.sh <dir with patch.diff> <property ids...>
# like try_seed.sh, but the patch is applied in a scratch worktree (GLM_REPO override) so that /repo itself is never modified: for use while seeding sub-agents
# compile their demonstrations against /repo.  The checks write their evidence / replay as usual; both are restored afterwards.
V=$(cd "$(dirname "$0")/.." && pwd)
d=$1; shift
wt=/tmp/seed/try_$$_$(basename $d)
rm -rf $wt; git -C /repo worktree add --detach $wt HEAD >/dev/null 2>&1 || { echo "cannot create worktree"; exit 2; }
( cd $wt && git apply "$d/patch.diff" ) || { echo "patch does not apply"; git -C /repo worktree remove --force $wt; exit 2; }
bk=$(mktemp -d /tmp/seed_evidence.XXXXXX); cp -a $V/evidence $bk/evidence; cp -a $V/replay $bk/replay 2>/dev/null
trap 'git -C /repo worktree remove --force $wt; rm -rf $V/evidence $V/replay; cp -a $bk/evidence $V/evidence; cp -a $bk/replay $V/replay 2>/dev/null; rm -rf $bk' EXIT INT TERM
cd $V
for p in "$@"; do
  GLM_REPO=$wt ./check $p --tier ${TIER:-quick} > /tmp/seed_check_$$_$p.log 2>&1; rc=$?
  echo "== $p exit $rc: $(grep -c '^VIOLATION' /tmp/seed_check_$$_$p.log) VIOLATION lines; $(tail -1 /tmp/seed_check_$$_$p.log)"
  grep -A3 '^VIOLATION' /tmp/seed_check_$$_$p.log | head -${SHOW:-12} | cut -c1-600
  grep 'ANALYSIS-BROKEN' /tmp/seed_check_$$_$p.log | head -3
done
