// irtool: read an (unoptimised or optimised) LLVM module, optionally mark callees noinline by
// demangled-name regex, run the stock -O2 pipeline with the vectorisers off, and dump every
// function whose name starts with a given prefix as one JSON object per line.
//
//   irtool in.ll out.jsonl [--prefix k_] [--noinline REGEX]... [--no-opt] [--emit-ll out.ll]
//
// The dump carries everything LaneFlow needs: opcodes, exact constant bits, byte offsets of GEPs
// (DataLayout), shuffle masks, predicates, nsw/nuw/exact, fast-math flags, TBAA access type names,
// and the !dbg inline chain of every instruction.
#include "llvm/ADT/DenseMap.h"
#include "llvm/ADT/SmallString.h"
#include "llvm/Analysis/CGSCCPassManager.h"
#include "llvm/Analysis/LoopAnalysisManager.h"
#include "llvm/Demangle/Demangle.h"
#include "llvm/IR/Constants.h"
#include "llvm/IR/DebugInfoMetadata.h"
#include "llvm/IR/Instructions.h"
#include "llvm/IR/IntrinsicInst.h"
#include "llvm/IR/LLVMContext.h"
#include "llvm/IR/Module.h"
#include "llvm/IR/Operator.h"
#include "llvm/IR/PassManager.h"
#include "llvm/IRReader/IRReader.h"
#include "llvm/MC/TargetRegistry.h"
#include "llvm/Passes/PassBuilder.h"
#include "llvm/Support/CommandLine.h"
#include "llvm/Support/FileSystem.h"
#include "llvm/Support/Regex.h"
#include "llvm/Support/SourceMgr.h"
#include "llvm/Support/TargetSelect.h"
#include "llvm/Support/raw_ostream.h"
#include "llvm/Target/TargetMachine.h"
#include "llvm/Analysis/ValueTracking.h"
#include "llvm/Transforms/Utils/Cloning.h"
#include <memory>
#include <string>
#include <vector>
using namespace llvm;

static std::string esc(StringRef s) {
  std::string o;
  for (char c : s) {
    if (c == '"' || c == '\\') { o += '\\'; o += c; }
    else if (c == '\n') o += "\\n";
    else if ((unsigned char)c < 0x20) o += ' ';
    else o += c;
  }
  return o;
}
static std::string tyStr(Type *T) { std::string s; raw_string_ostream os(s); T->print(os); return os.str(); }

struct Dumper {
  const DataLayout &DL; raw_ostream &OS;
  DenseMap<const Value *, unsigned> ids; unsigned next = 0;
  Dumper(const DataLayout &d, raw_ostream &o) : DL(d), OS(o) {}
  unsigned id(const Value *v) { auto it = ids.find(v); if (it != ids.end()) return it->second; return ids[v] = next++; }
  bool flatten(const Constant *C, std::vector<uint8_t> &buf, uint64_t off) {
    Type *Ty = C->getType();
    if (isa<ConstantAggregateZero>(C) || isa<UndefValue>(C)) return true;
    if (auto *CI = dyn_cast<ConstantInt>(C)) {
      APInt v = CI->getValue(); unsigned n = (v.getBitWidth() + 7) / 8;
      for (unsigned i = 0; i < n && off + i < buf.size(); ++i) buf[off + i] = (uint8_t)v.extractBitsAsZExtValue(std::min(8u, v.getBitWidth() - 8 * i), 8 * i);
      return true;
    }
    if (auto *CF = dyn_cast<ConstantFP>(C)) {
      APInt v = CF->getValueAPF().bitcastToAPInt(); unsigned n = v.getBitWidth() / 8;
      for (unsigned i = 0; i < n && off + i < buf.size(); ++i) buf[off + i] = (uint8_t)v.extractBitsAsZExtValue(8, 8 * i);
      return true;
    }
    if (auto *ST = dyn_cast<StructType>(Ty)) {
      const StructLayout *SL = DL.getStructLayout(ST);
      for (unsigned i = 0; i < ST->getNumElements(); ++i) {
        Constant *E = C->getAggregateElement(i); if (!E) return false;
        if (!flatten(E, buf, off + SL->getElementOffset(i))) return false;
      }
      return true;
    }
    if (auto *AT = dyn_cast<ArrayType>(Ty)) {
      uint64_t es = DL.getTypeAllocSize(AT->getElementType()).getFixedSize();
      for (uint64_t i = 0; i < AT->getNumElements(); ++i) { Constant *E = C->getAggregateElement(i); if (!E || !flatten(E, buf, off + i * es)) return false; }
      return true;
    }
    if (auto *VT = dyn_cast<FixedVectorType>(Ty)) {
      uint64_t es = DL.getTypeStoreSize(VT->getElementType()).getFixedSize();
      for (unsigned i = 0; i < VT->getNumElements(); ++i) { Constant *E = C->getAggregateElement(i); if (!E || !flatten(E, buf, off + i * es)) return false; }
      return true;
    }
    return false;
  }
  // a function-local static (mangled _ZZ...) that the module only ever loads from keeps its initial value: no other
  // translation unit can name it, so the loads see the initializer
  static bool onlyRead(const Value *V, unsigned depth = 0) {
    if (depth > 6) return false;
    for (const User *U : V->users()) {
      if (isa<LoadInst>(U)) continue;
      if (isa<GetElementPtrInst>(U) || isa<BitCastInst>(U) || isa<GEPOperator>(U) || isa<BitCastOperator>(U)) { if (!onlyRead(U, depth + 1)) return false; continue; }
      return false;
    }
    return true;
  }
  std::string cst(const Constant *C) {
    std::string s; raw_string_ostream os(s);
    if (auto *CI = dyn_cast<ConstantInt>(C)) { os << "{\"k\":\"int\",\"bits\":" << CI->getBitWidth() << ",\"v\":\""; CI->getValue().print(os, false); os << "\"}"; }
    else if (auto *CF = dyn_cast<ConstantFP>(C)) { os << "{\"k\":\"fp\",\"ty\":\"" << tyStr(C->getType()) << "\",\"bits\":\""; CF->getValueAPF().bitcastToAPInt().print(os, false); os << "\"}"; }
    else if (isa<PoisonValue>(C)) { os << "{\"k\":\"undef\",\"poison\":true,\"ty\":\"" << esc(tyStr(C->getType())) << "\"}"; }
    else if (isa<UndefValue>(C)) { os << "{\"k\":\"undef\",\"ty\":\"" << esc(tyStr(C->getType())) << "\"}"; }
    else if (isa<ConstantAggregateZero>(C) || isa<ConstantPointerNull>(C)) { os << "{\"k\":\"zero\",\"ty\":\"" << esc(tyStr(C->getType())) << "\"}"; }
    else if (auto *CV = dyn_cast<ConstantDataVector>(C)) { os << "{\"k\":\"vec\",\"e\":["; for (unsigned i = 0; i < CV->getNumElements(); ++i) { if (i) os << ","; os << cst(CV->getElementAsConstant(i)); } os << "]}"; }
    else if (auto *CV = dyn_cast<ConstantVector>(C)) { os << "{\"k\":\"vec\",\"e\":["; for (unsigned i = 0; i < CV->getNumOperands(); ++i) { if (i) os << ","; os << cst(CV->getOperand(i)); } os << "]}"; }
    else if (auto *CA = dyn_cast<ConstantDataArray>(C)) { os << "{\"k\":\"vec\",\"e\":["; for (unsigned i = 0; i < CA->getNumElements(); ++i) { if (i) os << ","; os << cst(CA->getElementAsConstant(i)); } os << "]}"; }
    else if (auto *CS = dyn_cast<ConstantStruct>(C)) { os << "{\"k\":\"struct\",\"e\":["; for (unsigned i = 0; i < CS->getNumOperands(); ++i) { if (i) os << ","; os << cst(CS->getOperand(i)); } os << "]}"; }
    else if (auto *F = dyn_cast<Function>(C)) { os << "{\"k\":\"func\",\"name\":\"" << esc(F->getName()) << "\"}"; }
    else if (auto *G = dyn_cast<GlobalVariable>(C)) {
      os << "{\"k\":\"global\",\"name\":\"" << esc(G->getName()) << "\"";
      if ((G->isConstant() || (G->getName().startswith("_ZZ") && onlyRead(G))) && G->hasInitializer()) {
        uint64_t sz = DL.getTypeAllocSize(G->getValueType()).getFixedSize();
        if (sz <= 4096) {
          std::vector<uint8_t> buf(sz, 0);
          if (flatten(G->getInitializer(), buf, 0)) {
            static const char *hx = "0123456789abcdef";
            os << ",\"bytes\":\"";
            for (uint8_t b : buf) { os << hx[b >> 4] << hx[b & 15]; }
            os << "\"";
          }
        }
      }
      os << "}";
    }
    else if (auto *CE = dyn_cast<ConstantExpr>(C)) {
      // GEP / bitcast of a global
      if (auto *GO = dyn_cast<GEPOperator>(CE)) {
        APInt Off(64, 0);
        if (GO->accumulateConstantOffset(DL, Off)) { os << "{\"k\":\"gep\",\"base\":" << cst(cast<Constant>(GO->getPointerOperand())) << ",\"off\":" << Off.getSExtValue() << "}"; return os.str(); }
      }
      if (CE->getOpcode() == Instruction::BitCast) { os << cst(CE->getOperand(0)); return os.str(); }
      std::string t; raw_string_ostream ts(t); C->print(ts); os << "{\"k\":\"other\",\"s\":\"" << esc(ts.str()) << "\"}";
    }
    else { std::string t; raw_string_ostream ts(t); C->print(ts); os << "{\"k\":\"other\",\"s\":\"" << esc(ts.str()) << "\"}"; }
    return os.str();
  }
  std::string ref(const Value *V) {
    if (auto *C = dyn_cast<Constant>(V)) return "{\"c\":" + cst(C) + "}";
    return "{\"v\":" + std::to_string(id(V)) + "}";
  }
  void dbg(const Instruction &I) {
    OS << ",\"dbg\":[";
    bool first = true;
    for (const DILocation *L = I.getDebugLoc().get(); L; L = L->getInlinedAt()) {
      if (!first) OS << ","; first = false;
      StringRef fn; if (auto *SP = L->getScope()->getSubprogram()) fn = SP->getName();
      OS << "[\"" << esc(L->getFilename()) << "\"," << L->getLine() << ",\"" << esc(fn) << "\"]";
    }
    OS << "]";
  }
  void fmf(const FPMathOperator *O) {
    FastMathFlags F = O->getFastMathFlags();
    if (!F.any()) return;
    OS << ",\"fmf\":\"";
    if (F.allowReassoc()) OS << "reassoc "; if (F.noNaNs()) OS << "nnan "; if (F.noInfs()) OS << "ninf "; if (F.noSignedZeros()) OS << "nsz ";
    if (F.allowReciprocal()) OS << "arcp "; if (F.allowContract()) OS << "contract "; if (F.approxFunc()) OS << "afn ";
    OS << "\"";
  }
  void tbaa(const Instruction &I) {
    if (MDNode *N = I.getMetadata(LLVMContext::MD_tbaa)) {
      // struct-path tag: (base, access, offset); print access type name
      if (N->getNumOperands() >= 2) if (auto *A = dyn_cast<MDNode>(N->getOperand(1)))
        if (A->getNumOperands() >= 1) if (auto *S = dyn_cast<MDString>(A->getOperand(0)))
          OS << ",\"tbaa\":\"" << esc(S->getString()) << "\"";
    }
  }
  void func(Function &F) {
    ids.clear(); next = 0;
    OS << "{\"func\":\"" << esc(F.getName()) << "\",\"ret\":\"" << esc(tyStr(F.getReturnType())) << "\",\"args\":[";
    bool f = true;
    for (auto &A : F.args()) {
      if (!f) OS << ","; f = false;
      OS << "{\"id\":" << id(&A) << ",\"ty\":\"" << esc(tyStr(A.getType())) << "\"";
      if (A.hasByValAttr()) OS << ",\"byval\":" << DL.getTypeAllocSize(A.getParamByValType()).getFixedSize();
      if (A.hasStructRetAttr()) OS << ",\"sret\":true";
      OS << "}";
    }
    OS << "],\"blocks\":[";
    for (auto &BB : F) id(&BB);
    bool fb = true;
    for (auto &BB : F) {
      if (!fb) OS << ","; fb = false;
      OS << "{\"id\":" << id(&BB) << ",\"insts\":[";
      bool fi = true;
      for (auto &I : BB) {
        if (isa<DbgInfoIntrinsic>(&I)) continue;
        if (auto *II = dyn_cast<IntrinsicInst>(&I)) {
          auto iid = II->getIntrinsicID();
          if (iid == Intrinsic::lifetime_start || iid == Intrinsic::lifetime_end || iid == Intrinsic::experimental_noalias_scope_decl || iid == Intrinsic::assume) continue;
        }
        if (!fi) OS << ","; fi = false;
        OS << "{\"id\":" << id(&I) << ",\"op\":\"" << I.getOpcodeName() << "\",\"ty\":\"" << esc(tyStr(I.getType())) << "\"";
        if (auto *G = dyn_cast<GetElementPtrInst>(&I)) {
          APInt Off(64, 0); bool ok = G->accumulateConstantOffset(DL, Off);
          OS << ",\"base\":" << ref(G->getPointerOperand());
          if (ok) OS << ",\"off\":" << Off.getSExtValue();
          else {
            // variable GEP: emit (constant part, [(index value, scale)])
            MapVector<Value *, APInt> VarOffs; APInt COff(64, 0);
            if (G->collectOffset(DL, 64, VarOffs, COff)) {
              OS << ",\"off\":null,\"coff\":" << COff.getSExtValue() << ",\"var\":[";
              bool x = true; for (auto &P : VarOffs) { if (!x) OS << ","; x = false; OS << "[" << ref(P.first) << "," << P.second.getSExtValue() << "]"; }
              OS << "]";
            } else OS << ",\"off\":null";
          }
        } else if (auto *C = dyn_cast<CallBase>(&I)) {
          OS << ",\"callee\":";
          if (auto *CF = C->getCalledFunction()) OS << "\"" << esc(CF->getName()) << "\""; else OS << "null";
          OS << ",\"ops\":["; bool x = true; for (auto &U : C->args()) { if (!x) OS << ","; x = false; OS << ref(U.get()); } OS << "]";
          // per-argument memory facts for pointer arguments: [dereferenceable bytes, readonly?]
          OS << ",\"pattr\":["; x = true;
          for (unsigned ai = 0; ai < C->arg_size(); ++ai) {
            if (!x) OS << ","; x = false;
            uint64_t d = C->getParamDereferenceableBytes(ai);
            if (auto *CF2 = C->getCalledFunction()) if (ai < CF2->arg_size()) d = std::max(d, CF2->getParamDereferenceableBytes(ai));
            bool ro = C->onlyReadsMemory(ai) || C->onlyReadsMemory();
            OS << "[" << d << "," << (ro ? 1 : 0) << "]";
          }
          OS << "]";
          if (auto *FPO = dyn_cast<FPMathOperator>(&I)) fmf(FPO);
        } else if (auto *P = dyn_cast<PHINode>(&I)) {
          OS << ",\"inc\":["; for (unsigned i = 0; i < P->getNumIncomingValues(); ++i) { if (i) OS << ","; OS << "[" << id(P->getIncomingBlock(i)) << "," << ref(P->getIncomingValue(i)) << "]"; } OS << "]";
        } else if (auto *SW = dyn_cast<SwitchInst>(&I)) {
          OS << ",\"cond\":" << ref(SW->getCondition()) << ",\"default\":" << id(SW->getDefaultDest()) << ",\"cases\":[";
          bool x = true; for (auto &Cs : SW->cases()) { if (!x) OS << ","; x = false; OS << "[\""; Cs.getCaseValue()->getValue().print(OS, false); OS << "\"," << id(Cs.getCaseSuccessor()) << "]"; }
          OS << "]";
        } else {
          OS << ",\"ops\":["; bool x = true;
          for (auto &U : I.operands()) { if (!x) OS << ","; x = false; if (auto *B = dyn_cast<BasicBlock>(U.get())) OS << "{\"bb\":" << id(B) << "}"; else OS << ref(U.get()); }
          OS << "]";
          if (auto *CI = dyn_cast<CmpInst>(&I)) OS << ",\"pred\":\"" << CmpInst::getPredicateName(CI->getPredicate()) << "\"";
          if (auto *S = dyn_cast<ShuffleVectorInst>(&I)) { OS << ",\"mask\":["; bool y = true; for (int m : S->getShuffleMask()) { if (!y) OS << ","; y = false; OS << m; } OS << "]"; }
          if (auto *EV = dyn_cast<ExtractValueInst>(&I)) { OS << ",\"idxs\":["; bool y = true; for (unsigned m : EV->indices()) { if (!y) OS << ","; y = false; OS << m; } OS << "]"; }
          if (auto *IV = dyn_cast<InsertValueInst>(&I)) { OS << ",\"idxs\":["; bool y = true; for (unsigned m : IV->indices()) { if (!y) OS << ","; y = false; OS << m; } OS << "]"; }
          if (auto *A = dyn_cast<AllocaInst>(&I)) { OS << ",\"size\":" << DL.getTypeAllocSize(A->getAllocatedType()).getFixedSize(); }
          if (auto *L = dyn_cast<LoadInst>(&I)) { OS << ",\"bytes\":" << DL.getTypeStoreSize(L->getType()).getFixedSize() << ",\"align\":" << L->getAlign().value(); tbaa(I); }
          if (auto *S = dyn_cast<StoreInst>(&I)) { OS << ",\"bytes\":" << DL.getTypeStoreSize(S->getValueOperand()->getType()).getFixedSize() << ",\"align\":" << S->getAlign().value(); tbaa(I); }
          if (auto *O = dyn_cast<OverflowingBinaryOperator>(&I)) { OS << ",\"nsw\":" << (O->hasNoSignedWrap() ? "true" : "false") << ",\"nuw\":" << (O->hasNoUnsignedWrap() ? "true" : "false"); }
          if (auto *E = dyn_cast<PossiblyExactOperator>(&I)) { if (E->isExact()) OS << ",\"exact\":true"; }
          if (auto *FPO = dyn_cast<FPMathOperator>(&I)) fmf(FPO);
        }
        dbg(I);
        OS << "}";
      }
      OS << "]}";
    }
    OS << "]}\n";
  }
};

// ---- memory-safety records ------------------------------------------------------------------------------------------------------------
// Run on a clone of the unoptimised module after inlining + mem2reg + sccp + simplifycfg only (no instcombine / SROA / memcpy optimisation, which
// may narrow or delete an out-of-bounds access): every load, store and constant-length memcpy / memmove / memset whose address is a constant offset
// into an alloca, a kernel argument or a global is recorded as in bounds / out of bounds and aligned / misaligned.  Objects and offsets are what the
// front end emitted for the instantiated templates, so a wrong sizeof in a memcpy or an aligned SIMD load from a packed object is visible here for
// every input at once.  Output: one JSON line per kernel {func, ok, unknown, records:[violations and unknown-base samples]}.
static void memDbg(raw_ostream &OS, const Instruction &I) {
  OS << "[";
  bool first = true;
  for (const DILocation *L = I.getDebugLoc().get(); L; L = L->getInlinedAt()) {
    if (!first) OS << ","; first = false;
    StringRef fn; if (auto *SP = L->getScope()->getSubprogram()) fn = SP->getName();
    OS << "[\"" << esc(L->getFilename()) << "\"," << L->getLine() << ",\"" << esc(fn) << "\"]";
  }
  OS << "]";
}
// leaves (byte offset, scalar type) of an object's LLVM type; vector members (SIMD registers, declared may_alias) are reported as nullptr type = "any"
static void typeLeaves(Type *T, uint64_t off, const DataLayout &DL, std::vector<std::pair<uint64_t, Type *>> &out, unsigned depth = 0) {
  if (depth > 8) { out.push_back({off, nullptr}); return; }
  if (auto *ST = dyn_cast<StructType>(T)) {
    if (ST->isOpaque()) { out.push_back({off, nullptr}); return; }
    const StructLayout *SL = DL.getStructLayout(ST);
    for (unsigned i = 0; i < ST->getNumElements(); ++i) typeLeaves(ST->getElementType(i), off + SL->getElementOffset(i), DL, out, depth + 1);
  } else if (auto *AT = dyn_cast<ArrayType>(T)) {
    uint64_t es = DL.getTypeAllocSize(AT->getElementType()).getFixedSize();
    for (uint64_t i = 0; i < AT->getNumElements() && i < 64; ++i) typeLeaves(AT->getElementType(), off + i * es, DL, out, depth + 1);
  } else if (isa<VectorType>(T)) out.push_back({off, nullptr});
  else out.push_back({off, T});
}
// scalar memory intrinsics that the baseline compiler's headers (g++: xmmintrin.h / emmintrin.h) implement as a plain typed access (*__P of type float / double,
// no may_alias): used on an object of another scalar type they are a strict-aliasing violation (clang's own headers use may_alias structs, so the IR looks harmless)
static std::string baseName(StringRef mangled) {
  std::string d = demangle(mangled.str());
  size_t p = d.find('(');
  if (p != std::string::npos) d = d.substr(0, p);
  return d;
}
static const char *typedIntrinsic(StringRef fn0) {
  std::string fns = baseName(fn0); StringRef fn(fns);
  if (fn == "_mm_store_sd" || fn == "_mm_storel_pd" || fn == "_mm_storeh_pd" || fn == "_mm_load_sd" || fn == "_mm_load1_pd" || fn == "_mm_load_pd1") return "double";
  if (fn == "_mm_store_ss" || fn == "_mm_load_ss" || fn == "_mm_load1_ps" || fn == "_mm_load_ps1") return "float";
  return nullptr;
}
static void memcheckFunc(Function &F, const DataLayout &DL, raw_ostream &OS) {
  // kernel meta table: kmeta_<name> = { sizeof(arg0), alignof(arg0), ... }
  std::vector<std::pair<uint64_t, uint64_t>> argInfo;
  if (auto *G = F.getParent()->getNamedGlobal(("kmeta_" + F.getName()).str()))
    if (G->hasInitializer()) if (auto *CA = dyn_cast<ConstantDataArray>(G->getInitializer()))
      for (unsigned i = 0; i + 1 < CA->getNumElements(); i += 2) argInfo.push_back({CA->getElementAsInteger(i), CA->getElementAsInteger(i + 1)});
  unsigned ok = 0, unknown = 0, varidx = 0; std::string recs; raw_string_ostream RS(recs); bool firstRec = true; unsigned nrec = 0;
  auto emit = [&](const Instruction &I, const char *what, const char *kind, const char *objk, std::string objn, int64_t off, uint64_t size, uint64_t osize, uint64_t need, uint64_t oalign) {
    if (nrec++ > 40) return;
    if (!firstRec) RS << ","; firstRec = false;
    RS << "{\"what\":\"" << what << "\",\"kind\":\"" << kind << "\",\"obj\":\"" << objk << "\",\"name\":\"" << esc(objn) << "\",\"off\":" << off << ",\"size\":" << size
       << ",\"objsize\":" << osize << ",\"need_align\":" << need << ",\"objalign\":" << oalign << ",\"dbg\":";
    memDbg(RS, I); RS << "}";
  };
  unsigned own = 0; const char *punWant = nullptr; std::string punName;
  auto check = [&](const Instruction &I, const Value *Ptr, uint64_t size, uint64_t need, const char *kind) {
    // accesses written in the kernel itself (innermost frame is the kernel's #line tag) are the harness's, not the library's
    if (const DILocation *L0 = I.getDebugLoc().get()) { if (L0->getFilename().startswith("k_")) { ++own; return; } }
    APInt Off(DL.getIndexTypeSizeInBits(Ptr->getType()), 0);
    const Value *Base = Ptr->stripAndAccumulateConstantOffsets(DL, Off, /*AllowNonInbounds=*/true);
    int64_t off = Off.getSExtValue();
    uint64_t osize = 0, oalign = 1; const char *objk = nullptr; std::string objn; Type *objTy = nullptr;
    if (auto *A = dyn_cast<AllocaInst>(Base)) {
      if (!A->isStaticAlloca() || A->isArrayAllocation()) { ++unknown; return; }
      osize = DL.getTypeAllocSize(A->getAllocatedType()).getFixedSize(); oalign = A->getAlign().value(); objk = "local"; objn = tyStr(A->getAllocatedType()); objTy = A->getAllocatedType();
    } else if (auto *Ar = dyn_cast<Argument>(Base)) {
      if (Ar->getArgNo() >= argInfo.size()) { ++unknown; return; }
      osize = argInfo[Ar->getArgNo()].first; oalign = argInfo[Ar->getArgNo()].second; objk = "arg"; objn = std::to_string(Ar->getArgNo());
      if (auto *PT = dyn_cast<PointerType>(Ar->getType())) if (!PT->isOpaque()) objTy = PT->getPointerElementType();
      if (osize == 0) { ++unknown; return; }      // a pointer to a scalar may be the first element of a caller's array: extent unknown
    } else if (auto *G = dyn_cast<GlobalVariable>(Base)) {
      osize = DL.getTypeAllocSize(G->getValueType()).getFixedSize(); oalign = G->getAlign().valueOrOne().value(); objk = "global"; objn = G->getName().str();
      if (G->isDeclaration()) { ++unknown; return; }
    } else {
      // variable index, phi / select of pointers, pointer loaded from memory or returned by a call: not decided here
      if (isa<GetElementPtrInst>(Base) || isa<GEPOperator>(Base)) ++varidx; else ++unknown;
      return;
    }
    bool bad = false;
    if (punWant && objTy && off >= 0) {
      std::vector<std::pair<uint64_t, Type *>> leaves; typeLeaves(objTy, 0, DL, leaves);
      for (auto &lf : leaves) {
        if (!lf.second) continue;
        uint64_t ls = DL.getTypeStoreSize(lf.second).getFixedSize();
        if (lf.first + ls <= (uint64_t)off || lf.first >= (uint64_t)off + size) continue;
        bool same = (StringRef(punWant) == "double") ? lf.second->isDoubleTy() : lf.second->isFloatTy();
        if (!same) { std::string nm = punName + " (" + punWant + " access) on a member of type " + tyStr(lf.second); emit(I, "type_pun", kind, objk, nm, off, size, osize, need, oalign); bad = true; break; }
      }
      if (!bad) ++ok;
      return;
    }
    if (off < 0 || (uint64_t)off + size > osize) { emit(I, "out_of_bounds", kind, objk, objn, off, size, osize, need, oalign); bad = true; }
    if (need > 1) {
      uint64_t a = std::min(need, oalign);
      if (need > oalign || (off % (int64_t)a) != 0) { emit(I, "misaligned", kind, objk, objn, off, size, osize, need, oalign); bad = true; }
    }
    if (!bad) ++ok;
  };
  for (auto &BB : F) for (auto &I : BB) {
    if (auto *L = dyn_cast<LoadInst>(&I)) check(I, L->getPointerOperand(), DL.getTypeStoreSize(L->getType()).getFixedSize(), L->getAlign().value(), "load");
    else if (auto *S = dyn_cast<StoreInst>(&I)) check(I, S->getPointerOperand(), DL.getTypeStoreSize(S->getValueOperand()->getType()).getFixedSize(), S->getAlign().value(), "store");
    else if (auto *CB = dyn_cast<CallBase>(&I)) {
      Function *CF = CB->getCalledFunction();
      if (CF && CF->getName().startswith("__verif_typed_access.") && CB->arg_size() == 1) {
        std::string inm = baseName(CF->getName().substr(strlen("__verif_typed_access."))); StringRef iname(inm);
        punWant = typedIntrinsic(iname); punName = inm;
        if (punWant) check(I, CB->getArgOperand(0), StringRef(punWant) == "double" ? 8 : 4, 1, iname.contains("store") ? "store" : "load");
        punWant = nullptr;
        continue;
      }
      if (auto *MI = dyn_cast<MemIntrinsic>(&I)) {
        auto *Len = dyn_cast<ConstantInt>(MI->getLength());
        if (!Len) { ++unknown; continue; }
        uint64_t n = Len->getZExtValue(); if (n == 0) continue;
        check(I, MI->getRawDest(), n, 1, isa<MemSetInst>(MI) ? "memset" : "memcpy_dst");
        if (auto *MT = dyn_cast<MemTransferInst>(MI)) check(I, MT->getRawSource(), n, 1, "memcpy_src");
      }
    }
    else if (auto *MI = dyn_cast<MemIntrinsic>(&I)) {
      auto *Len = dyn_cast<ConstantInt>(MI->getLength());
      if (!Len) { ++unknown; continue; }
      uint64_t n = Len->getZExtValue(); if (n == 0) continue;
      check(I, MI->getRawDest(), n, 1, isa<MemSetInst>(MI) ? "memset" : "memcpy_dst");
      if (auto *MT = dyn_cast<MemTransferInst>(MI)) check(I, MT->getRawSource(), n, 1, "memcpy_src");
    }
  }
  RS.flush();
  OS << "{\"func\":\"" << esc(F.getName()) << "\",\"ok\":" << ok << ",\"unknown\":" << unknown << ",\"varidx\":" << varidx << ",\"own\":" << own << ",\"args\":" << argInfo.size() << ",\"records\":[" << recs << "]}\n";
}
static bool runMemcheck(Module &Src, const std::string &out, const std::string &prefix) {
  std::unique_ptr<Module> M = CloneModule(Src);
  {
    // mark every call of a typed scalar memory intrinsic: a declared-only callee survives inlining and carries the pointer (clang marks the intrinsics nodebug, so
    // their inlined bodies cannot be recognised afterwards)
    std::vector<CallBase *> calls;
    for (Function &F : *M) for (auto &BB : F) for (auto &I : BB) if (auto *CB = dyn_cast<CallBase>(&I)) if (Function *CF = CB->getCalledFunction())
      if (typedIntrinsic(CF->getName()) && CB->arg_size() >= 1 && CB->getArgOperand(0)->getType()->isPointerTy()) calls.push_back(CB);
    for (CallBase *CB : calls) {
      Function *CF = CB->getCalledFunction();
      Type *PT = CB->getArgOperand(0)->getType();
      FunctionCallee MF = M->getOrInsertFunction(("__verif_typed_access." + CF->getName()).str(), FunctionType::get(Type::getVoidTy(M->getContext()), {PT}, false));
      CallInst *NC = CallInst::Create(MF, {CB->getArgOperand(0)}, "", CB);
      NC->setDebugLoc(CB->getDebugLoc());
    }
  }
  for (Function &F : *M) { if (F.isDeclaration()) continue; if (F.hasFnAttribute(Attribute::OptimizeNone)) continue; }
  LoopAnalysisManager LAM; FunctionAnalysisManager FAM; CGSCCAnalysisManager CGAM; ModuleAnalysisManager MAM;
  PassBuilder PB;
  PB.registerModuleAnalyses(MAM); PB.registerCGSCCAnalyses(CGAM); PB.registerFunctionAnalyses(FAM); PB.registerLoopAnalyses(LAM);
  PB.crossRegisterProxies(LAM, FAM, CGAM, MAM);
  ModulePassManager MPM;
  if (auto Err = PB.parsePassPipeline(MPM, "always-inline,cgscc(inline),function(mem2reg,sccp,simplifycfg,mem2reg,sccp,simplifycfg)")) { errs() << "irtool: memcheck pipeline: " << toString(std::move(Err)) << "\n"; return false; }
  MPM.run(*M, MAM);
  std::error_code EC; raw_fd_ostream OS(out, EC);
  if (EC) return false;
  for (Function &F : *M) { if (F.isDeclaration()) continue; if (!F.getName().startswith(prefix)) continue; memcheckFunc(F, M->getDataLayout(), OS); }
  return true;
}

int main(int argc, char **argv) {
  if (argc < 3) { errs() << "usage: irtool in.ll out.jsonl [--prefix P] [--noinline RE]... [--no-opt] [--emit-ll F] [--inline-threshold N]\n"; return 2; }
  std::string in = argv[1], out = argv[2], prefix = "k_", emitll, inlThr = "100000", peel, memout;
  std::vector<std::string> noinl; bool doOpt = true, memOnly = false;
  for (int i = 3; i < argc; ++i) {
    std::string a = argv[i];
    if (a == "--prefix" && i + 1 < argc) prefix = argv[++i];
    else if (a == "--noinline" && i + 1 < argc) noinl.push_back(argv[++i]);
    else if (a == "--no-opt") doOpt = false;
    else if (a == "--emit-ll" && i + 1 < argc) emitll = argv[++i];
    else if (a == "--inline-threshold" && i + 1 < argc) inlThr = argv[++i];
    else if (a == "--peel" && i + 1 < argc) peel = argv[++i];
    else if (a == "--memcheck" && i + 1 < argc) memout = argv[++i];
    else if (a == "--mem-only") memOnly = true;
    else { errs() << "irtool: bad arg " << a << "\n"; return 2; }
  }
  {
    std::string thr = "-inline-threshold=" + inlThr;
    std::string pk = "-unroll-peel-count=" + (peel.empty() ? std::string("0") : peel);
    const char *fake[] = {"irtool", thr.c_str(), "-unroll-threshold=100000", "-unroll-max-count=64", "-two-entry-phi-node-folding-threshold=64", "-phi-node-folding-threshold=64", pk.c_str()};
    cl::ParseCommandLineOptions(peel.empty() ? 6 : 7, fake);
  }
  LLVMContext C; SMDiagnostic E;
  auto M = parseIRFile(in, E, C);
  if (!M) { E.print("irtool", errs()); return 2; }

  if (!noinl.empty()) {
    std::vector<Regex> res; for (auto &s : noinl) res.emplace_back(s);
    for (Function &F : *M) {
      if (F.isDeclaration()) continue;
      std::string dn = demangle(F.getName().str());
      for (auto &R : res) if (R.match(dn)) {
        F.removeFnAttr(Attribute::AlwaysInline); F.removeFnAttr(Attribute::InlineHint);
        F.addFnAttr(Attribute::NoInline);
        // keep it an opaque call: forbid IPO from looking inside
        F.addFnAttr(Attribute::OptimizeNone);
        break;
      }
    }
  }
  if (!memout.empty() && !runMemcheck(*M, memout, prefix)) { errs() << "irtool: memcheck failed\n"; return 2; }
  if (memOnly) { std::error_code EC0; raw_fd_ostream O0(out, EC0); return 0; }
  if (doOpt) {
    InitializeNativeTarget(); InitializeNativeTargetAsmPrinter();
    std::string err; std::unique_ptr<TargetMachine> TM;
    if (const Target *T = TargetRegistry::lookupTarget(M->getTargetTriple(), err))
      TM.reset(T->createTargetMachine(M->getTargetTriple(), "x86-64", "", TargetOptions(), None));
    PipelineTuningOptions PTO; PTO.LoopVectorization = false; PTO.SLPVectorization = false; PTO.LoopUnrolling = true; PTO.LoopInterleaving = false;
    PassBuilder PB(TM.get(), PTO);
    LoopAnalysisManager LAM; FunctionAnalysisManager FAM; CGSCCAnalysisManager CGAM; ModuleAnalysisManager MAM;
    PB.registerModuleAnalyses(MAM); PB.registerCGSCCAnalyses(CGAM); PB.registerFunctionAnalyses(FAM); PB.registerLoopAnalyses(LAM);
    PB.crossRegisterProxies(LAM, FAM, CGAM, MAM);
    ModulePassManager MPM = PB.buildPerModuleDefaultPipeline(OptimizationLevel::O2);
    MPM.run(*M, MAM);
  }
  if (!emitll.empty()) { std::error_code EC; raw_fd_ostream o(emitll, EC); M->print(o, nullptr); }
  std::error_code EC; raw_fd_ostream OS(out, EC);
  if (EC) { errs() << "irtool: cannot write " << out << "\n"; return 2; }
  Dumper D(M->getDataLayout(), OS);
  for (Function &F : *M) { if (F.isDeclaration()) continue; if (!F.getName().startswith(prefix)) continue; D.func(F); }
  return 0;
}
