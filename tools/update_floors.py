#!/usr/bin/env python3
"""record anti-vacuity floors (the decided (PROVED + REFUTED, i.e. including listed known findings) count per rule of the last run; exact; a rule module may set FLOOR_RATIO for pooled groups) for a property/tier from its evidence file.
Run by hand after the counts of a run on the unchanged tree have been confirmed; never run by a check."""
import json, sys, os
root = os.path.join(os.path.dirname(os.path.abspath(__file__)), '..')
fp = os.path.join(root, 'rules', 'expect.json')
e = json.load(open(fp)) if os.path.exists(fp) else {}
sys.path.insert(0, root)
import importlib
for prop in sys.argv[1:]:
    ev = json.load(open(os.path.join(root, 'evidence', prop + '.json')))
    mod = importlib.import_module('rules.' + prop.lower())
    fgroup = getattr(mod, 'FLOOR_GROUP', None)
    ratio = getattr(mod, 'FLOOR_RATIO', None)
    dec = {}
    for r, v in ev['coverage']['per_rule'].items():
        g = fgroup(r) if fgroup else r
        dec[g] = dec.get(g, 0) + v['PROVED'] + v['REFUTED']
    e.setdefault(prop, {})[ev['tier']] = {g: (int(n * ratio) if ratio else n) for g, n in dec.items() if n}
    print(prop, ev['tier'], e[prop][ev['tier']])
json.dump(e, open(fp, 'w'), indent=1, sort_keys=True)
