#!/usr/bin/env python3
"""record anti-vacuity floors (the decided (PROVED + REFUTED, i.e. including listed known findings) count per rule of the last run; 98% of it for rules with 200 or more obligations) for a property/tier from its evidence file.
Run by hand after the counts of a run on the unchanged tree have been confirmed; never run by a check."""
import json, sys, os
root = os.path.join(os.path.dirname(os.path.abspath(__file__)), '..')
fp = os.path.join(root, 'rules', 'expect.json')
e = json.load(open(fp)) if os.path.exists(fp) else {}
for prop in sys.argv[1:]:
    ev = json.load(open(os.path.join(root, 'evidence', prop + '.json')))
    e.setdefault(prop, {})[ev['tier']] = {r: ((v['PROVED'] + v['REFUTED']) if (v['PROVED'] + v['REFUTED']) < 200 else int((v['PROVED'] + v['REFUTED']) * 0.98)) for r, v in ev['coverage']['per_rule'].items() if v['PROVED'] + v['REFUTED']}
    print(prop, ev['tier'], e[prop][ev['tier']])
json.dump(e, open(fp, 'w'), indent=1, sort_keys=True)
