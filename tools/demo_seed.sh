#!/bin/sh
# usage: tools/demo_seed.sh <seed id>   — re-checks only the demonstration (with / without the patch) in a scratch worktree
sid=$1; out=/verif/seeded/$sid; scratch=/tmp/seed/demo_$sid
rm -rf $scratch; git -C /repo worktree add --detach $scratch HEAD >/dev/null 2>&1 || exit 2
( cd $scratch && git apply $out/patch.diff ) || { echo "patch does not apply"; git -C /repo worktree remove --force $scratch; exit 2; }
flags=$(head -1 $out/demo.cpp | grep -o -- ' -[DmfO][A-Za-z0-9_][A-Za-z0-9_=.+-]*' | grep -v -- '-o$' | tr '\n' ' ')
g++ -std=gnu++17 -I$scratch $flags $out/demo.cpp -o $scratch/demo.with 2>/dev/null && $scratch/demo.with >/dev/null 2>&1; with=$?
g++ -std=gnu++17 -I/repo $flags $out/demo.cpp -o $scratch/demo.without 2>/dev/null && $scratch/demo.without >/dev/null 2>&1; without=$?
git -C /repo worktree remove --force $scratch
echo "demo_with_patch_exit=$with demo_without_patch_exit=$without flags='$flags'"
