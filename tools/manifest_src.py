NOTES = ('Technique family: static analysis only. Every check instantiates GLM API calls from /repo into tiny kernels, compiles them with clang 14 to '
         'LLVM IR (never runs them), and decides each obligation by abstract interpretation over the IR. Exit 2 + ANALYSIS-BROKEN means the analysis itself '
         'could not reach its confirmed floor (never reported as pass or violation). See DESIGN.md.')

CHECKS = {
 'C02': dict(level='proof',
   text='Every matrix operator/function of all 9 shapes (27 products, mat*vec, vec*mat, transpose, outerProduct, matrixCompMult, element-wise and compound '
        'operators, ++/--, ==/!=, 81 conversions, scalar/column/element constructors, row/column accessors, gtx matrix helpers) is proved lane by lane equal to the '
        'textbook column-major definition as a polynomial identity over the input lanes (Q[lanes] for float/double, Z/2^w for integers), for all inputs at once.',
   note='Decided: algebraic definition, lane selection, identity padding, absence of cancelling extra terms, instantiability of every overload. Not decided: '
        'magnitude of float rounding (the property allows rounding of the individual products and sums). Trusted: clang 14 front end + -O2 scalar pipeline without fast-math, '
        'irtool dump, LaneFlow normal forms, the ~40-line definitions in rules/c02.py.',
   technique='abstract interpretation of instantiated LLVM IR into polynomial normal forms; comparison with generated definitions'),
}

_PENDING = 'check not yet implemented in this revision of /verif (planned in DESIGN.md section 4); nothing is claimed'
NOT_APPLICABLE = {p: _PENDING for p in ['C01','C03','C04','C05','C06','C08','C09','C10','C11','C12','C13','C14','C15','C16','C17','C18','C19','C20']}
NOT_APPLICABLE['C07'] = ('every clause quantifies over the numeric value of all 2^16/2^32 bit patterns through a renormalisation loop, exponent range splits and a '
                         'round-half-up carry; no sound static domain in reach relates that code to IEEE rounding, and the only structural facts would restate the code. '
                         'Lane plumbing of packHalf*/unpackHalf* is covered under C06, not claimed as C07.')

CHECKS['C10'] = dict(level='proof',
   text='determinant (2,3,4; float/double/integers) is proved equal to the Leibniz expansion; every entry of inverse equals cofactor*inv(det); M*inverse(M) and inverse(M)*M '
        'reduce to the identity with the single axiom inv(p)*p=1; inverseTranspose, affineInverse (on affine input), operator/ (mat/mat, mat/vec, vec/mat, compound) '
        'and gtx adjugate are proved equal to the same generated definition, as rational-function identities valid for all invertible inputs.',
   note='Decided: the algebraic identities. Not decided: the condition-number-proportional rounding bound, gtx matrix_factorisation qr/rq and matrix_query predicates '
        '(data-dependent loops). Multiplicativity/transpose-invariance of det follow mathematically from det == Leibniz.',
   technique='abstract interpretation of instantiated LLVM IR into rational normal forms; exact polynomial division for inv(p)*p=1')
NOT_APPLICABLE.pop('C10', None)

CHECKS['C01'] = dict(level='other',
   text='For every component-wise function and operator (core common/exponential/trigonometric/integer/relational, the ext/gtc twins, arithmetic/bitwise/shift/compound/unary/++-- operators '
        'in all vector/scalar/vec1 operand combinations, matrix abs/mix, vector ==/!=, any/all) and every length 1-4 x element type, each output lane of the vector call is compared with the '
        'scalar overload instantiated from the same tree: lane discipline (dependence), identical term / identical integer polynomial mod 2^w / equivalent decision over all weak orderings x NaN '
        'cases, ring-equal normal form for the composite formulas, and instantiability of every overload. Holds for all inputs because it is a statement about the instantiated code shape.',
   note='Decided: sibling agreement vector vs scalar (a defect shared by both is out of scope: C11), existence of overloads, sign-of-zero/NaN differences via the float-class domain. '
        'Not decided (reported UNDECIDED, never an alarm): numeric error bounds of composite formulas and lowp approximations (lowp inversesqrt excluded by the property), SWAR bit ladders whose '
        'vector and scalar code shapes differ (bitCount/findMSB on some widths), ULP-equal (decided under C14), findNSB loop, gtx/extended_min_max templates (template-template parameter cannot bind glm::vec). '
        'Level "other": mixed rule set (sibling differential + compile-fail witnesses).',
   technique='sibling cross-check of instantiated LLVM IR: term identity, polynomial normal forms, finite ordering x NaN case analysis, float-class abstract interpretation')
NOT_APPLICABLE.pop('C01', None)

CHECKS['C12'] = dict(level='proof',
   text='dot, length, distance, cross, normalize, reflect, refract, faceforward (vec1-4 and genType overloads) and the gtx length2/distance2/l1/l2 norms, proj, perp, orthonormalize '
        '(vec3 and mat3 Gram-Schmidt), angle, orientedAngle, closestPointOnLine, triangleNormal, vec2 cross, mixedProduct are proved lane by lane ring-equal to the textbook formula '
        '(rational functions with sqrt/acos atoms; decisions compared under every valuation of the comparison atoms); refract additionally satisfies guard dominance: sqrt(k) reaches the '
        'result only under the k >= 0 guard and the other arm is 0.',
   note='Decided: the algebraic definitions and branch structure for all inputs. Not decided: unit length of normalize, numeric Snell law, degenerate configurations, float rounding. '
        'Orthogonality/anti-commutativity of cross follow mathematically from the determinant formula.',
   technique='abstract interpretation of instantiated LLVM IR into rational normal forms; decision-table comparison; NaN-propagation guard-dominance rule')
NOT_APPLICABLE.pop('C12', None)

CHECKS['C16'] = dict(level='proof',
   text='Compile-fail witnesses: ~6000 static_assert facts per configuration (sizeof, alignof, offsetof of every named member in all three letter sets, column stride, quaternion '
        'member order, length() value and type, trivially-copyable, col/row/value types, the gtc/type_precision / type_aligned / core typedef families) over lengths 1-4 x shapes x 13 element '
        'types x packed/aligned qualifiers, compiled under default, SWIZZLE, XYZW_ONLY, SIZE_T_LENGTH, QUAT_DATA_WXYZ, CTOR_INIT, INTRINSICS at each ISA level and (DEFAULT_)ALIGNED_GENTYPES; '
        'plus LaneFlow kernels proving that operator[], value_ptr(x)[k] and make_vec/make_mat/make_quat address exactly the lane the facts establish and that make_*(value_ptr(x)) is the identity.',
   note='Exhaustive over the instantiation lattice named in the property for the configurations constructible on this toolchain; aligned gentypes without intrinsics cannot be configured with '
        'gcc/clang on Linux and are analysed together with INTRINSICS. Trusted: clang 14 constant evaluation (same Itanium ABI as the baseline g++).',
   technique='compile-fail witnesses (static_assert/offsetof/decltype TUs per configuration) + bit-provenance analysis of accessor kernels')
NOT_APPLICABLE.pop('C16', None)

CHECKS['C17'] = dict(level='proof',
   text='Every swizzle name (2/3/4 letters over xyzw/rgba/stpq, source lengths 2-4; 1443 names per element type) in operator form (incl. the SSE2/AVX2 shuffle specialisations on aligned vec4), '
        'member-function form and the gtx/vec_swizzle free functions is proved to return exactly input lane index(name[j]) in output lane j; writable swizzles change exactly the named lanes; '
        'every vec constructor argument composition (scalars / vec1 / vec2-4 in argument order, mixed element types and qualifiers, truncation, broadcast), matrix element-type and column '
        'conversions and the quaternion constructors/wxyz factory in both memory orders place static_cast(source lane) in the named lane. All are bit-provenance identities, valid for every value.',
   note='Constructor compositions for which no constructor is declared are skipped (not a violation); a declared overload that does not instantiate is a violation. Trusted: clang lowering of '
        '_mm_shuffle_ps/_mm_shuffle_epi32/_mm_permute to shufflevector.',
   technique='bit-provenance analysis of instantiated LLVM IR (concat/slice/shuffle normal forms) + compile-fail existence witnesses')
NOT_APPLICABLE.pop('C17', None)

CHECKS['C03'] = dict(level='translation_validation',
   text='Every vec3/vec4/mat3/mat4/quat operation with a SIMD specialisation (arithmetic/bitwise/shift/comparison operators, abs/sign/floor/ceil/round/trunc/fract/mod/min/max/clamp/step/'
        'sqrt/inversesqrt/mix/smoothstep/fma, dot/cross/length/distance/normalize/faceforward/reflect/refract, matrix product/transpose/determinant/inverse/outerProduct, quaternion '
        'product/rotation/conjugate/inverse/lerp, int<->float conversions) is instantiated under GLM_FORCE_PURE (packed) and under GLM_FORCE_INTRINSICS (aligned) at SSE2 ... AVX2+FMA and '
        'GLM_FORCE_QUAT_DATA_WXYZ; output lanes are matched by component name. Class A operations must give the identical term / integer polynomial / decision; class B (multi-term float) '
        'ring-equal normal forms with the same branch decisions under every order relation of the compared operands; only lowp kernels may contain rcp/rsqrt atoms; every kernel must '
        'instantiate at every ISA level.',
   note='programs = kernel pairs. Not decided (UNDECIDED, listed in the evidence): pairs that implement the same function by different numeric algorithms (SSE2 magic-constant floor/ceil/round/'
        'fract/mod, movemask-based refract), accuracy of lowp rcp/rsqrt, rounding magnitude; sign of zero and NaN operands are outside C03\'s documented domain and not distinguished. '
        'Trusted: clang lowering of intrinsics to generic IR and the ~40 lane-wise transfer functions in laneflow/x86.py.',
   technique='cross-build differential of instantiated LLVM IR (pure vs intrinsic): term identity, polynomial normal forms, decision tables over order relations, who-may-use rule for rcp/rsqrt')
NOT_APPLICABLE.pop('C03', None)

CHECKS['C15'] = dict(level='translation_validation',
   text='The default-configuration kernels of the C01/C02/C10/C12 corpora (quick: ~700, thorough: ~4900 one-call kernels) are instantiated again under 19 single-macro configurations '
        '(GLM_FORCE_CXX98/03/11/14/17/20, INLINE, EXPLICIT_CTOR, CTOR_INIT, SIZE_T_LENGTH, XYZW_ONLY, SWIZZLE, UNRESTRICTED_GENTYPE, QUAT_DATA_WXYZ, COMPILER/PLATFORM/ARCH_UNKNOWN, PURE, '
        'SILENT_WARNINGS) and combinations; every output lane must carry the same term as the default build (=> bit-identical for all inputs), or the same integer polynomial / selection; '
        'the float-class and ordering domains turn fallback-vs-std divergences into witnesses; every kernel must instantiate under every configuration.',
   note='programs = (kernel, configuration) pairs. Not decided: equality of different numeric fallback algorithms beyond what the domains can show (exp2/log2/asinh/acosh/atanh/trunc fallbacks '
        'are UNDECIDED), dependence on the compiler optimisation level, aligned types without intrinsics (not constructible here), quaternion kernels under QUAT_DATA_WXYZ (C04). '
        'Two known findings (round / roundEven fallbacks under CXX98/CXX03) are listed in known_findings.jsonl.',
   technique='cross-configuration differential of instantiated LLVM IR: term identity, integer polynomial identity, ordering / float-class abstract evaluation')
NOT_APPLICABLE.pop('C15', None)

CHECKS['C05'] = dict(level='proof',
   text='bitfieldReverse (output bit i is input bit W-1-i, as a permutation or bit by bit by truth table), bitCount (llvm.ctpop of the input, or a mask-and-add ladder whose final field is '
        'the sum of all W input bits with every intermediate field sum bounded below its width), bitfieldExtract / bitfieldInsert for every constant (offset, bits) pair (exhaustive for 8/16-bit, '
        'boundary set for 32/64-bit in quick, exhaustive in thorough) as pure bit placement with the GLSL extension rule, uaddCarry / usubBorrow / umulExtended / imulExtended as polynomials mod 2^32 '
        '/ slices of the exact 64-bit product and canonical carry/borrow compares — for widths 8..64, signed and unsigned, scalar and vector, valid for every input value; every overload must instantiate.',
   note='Not decided (UNDECIDED): findLSB / findMSB (the identity popcount(~v & (v-1)) == cttz(v) is arithmetic on carries and LLVM does not expose cttz/ctlz here), bitCount on packed 8/16-bit vec4 '
        '(LLVM merges lanes into one SWAR word). Two known findings are recorded (usubBorrow operand order; signed bitfieldExtract zero-extends); the field content of signed extracts is still '
        'checked by rule extract_field so other regressions there are not masked.',
   technique='bit-provenance normal forms, SWAR field-sum abstract domain, modular polynomial identities over instantiated LLVM IR; compile-fail existence witnesses')
NOT_APPLICABLE.pop('C05', None)

CHECKS['C06'] = dict(level='other',
   text='For all 19 normalised formats, the integer formats, Double2x32, the Half formats, F2x11_1x10 and the templated packUnorm: bit-level placement (field i depends only on component i, '
        'fields cover the word, component 0 in the least-significant bits), field isolation of every unpack component, the quantisation shape conv(round(clamp(x,lo,hi)*S)) with S = 2^w-1 / '
        '2^(w-1)-1 for the documented field width, clamp bounds compared over all orderings, dequantisation by the correctly rounded 1/S (or division by S), snorm clamp and sign extension, '
        'pure placement with the right extension for integer fields, once-per-component use of the opaque half/11-bit/10-bit codecs with exactly the field as argument, and the constants the '
        '11/10-bit decoders/encoders return for the zero / Inf / every NaN code (partial evaluation of the inlined term at the code).',
   note='These are necessary conditions of the lossless re-pack and half-step clauses for all inputs (writer/reader agreement, layout); the floating-point rounding argument that completes '
        'them, monotonicity, and packF3x9_E1x5 / RGBM numerics are not decided. Level "other": structural rule set, not a proof of the numeric clauses.',
   technique='bit-dependence and term-shape analysis of instantiated LLVM IR; ordering-domain comparison of clamps; partial evaluation at constant codes')
NOT_APPLICABLE.pop('C06', None)

CHECKS['C14'] = dict(level='other',
   text='nextFloat/prevFloat (ext and gtc copies, float/double, scalar/vector, 1- and n-step) under the default, GLM_FORCE_CXX98 and GLM_FORCE_CXX03 configurations are chains of the next-after '
        'primitive whose direction constant dominates every finite value; equal/notEqual/epsilonEqual/epsilonNotEqual with an epsilon are compared with |x-y| <= eps / > eps under every order '
        'relation of the compared quantities (scalar, vector, matrix per column, quaternion); equal/notEqual with maxULPs are compared, as boolean functions of the operand bit patterns, with '
        '"signs equal ? |a.i-b.i| <= n : both zero", identically for scalar, vector and matrix overloads, with witnesses assembled from independent bit fields.',
   note='Decided: step direction and count, predicate kind and lane discipline of the epsilon comparisons, the sign/zero structure of the ULP comparison. Not decided: correctness of the '
        'next-after primitive itself, floatDistance arithmetic, exact ULP counts across zero. Three known findings (scalar ULP equal on +0/-0 asserted by the repo tests; strict epsilonEqual and '
        'quaternion equal documented as such) are listed.',
   technique='term-shape analysis (call chains and direction constants), decision tables over order relations, bit-level boolean equivalence with an equality-logic feasibility oracle')
NOT_APPLICABLE.pop('C14', None)

CHECKS['C08'] = dict(level='proof',
   text='All 20 fully suffixed clip-space builders (ortho/frustum/perspective/perspectiveFov/infinitePerspective x RH/LH x NO/ZO): the result lanes, read as rational functions of the '
        'parameters, send the eight view-volume corners to the clip-cube faces of the variant (x,y = -+w, near z = -w | 0, far or infinity z = +w, w = -+z_eye or 1) as polynomial identities modulo '
        'inv(p)*p=1 and tan=sin/cos; perspective == symmetric frustum and perspectiveFov == perspective(aspect = w/h) as rational identities; every unsuffixed and half-suffixed builder, project, '
        'unProject and lookAt has identical lane terms to the variant selected under each of the four GLM_FORCE_LEFT_HANDED x GLM_FORCE_DEPTH_ZERO_TO_ONE configurations; projectNO/ZO and '
        'unProjectNO/ZO equal the viewport-map definition (inverse kept opaque, its argument proved to be proj*model).',
   note='Valid for all parameter values for which the divisions are defined (the property\'s valid parameter sets). Not decided: float accuracy, behaviour for invalid parameters, '
        'tweakedInfinitePerspective, and project(unProject(w)) == w with the inverse inlined (follows mathematically from C10 + the two viewport identities).',
   technique='abstract interpretation of instantiated LLVM IR into rational normal forms; symbolic corner mapping; configuration differential by term identity')
NOT_APPLICABLE.pop('C08', None)

CHECKS['C09'] = dict(level='proof',
   text='translate / rotate / rotate_slow / scale / scale_slow / shear / shear_slow: every result lane is ring-equal (rational normal forms with cos/sin/sqrt/inverse atoms) to the lane of M * E with E '
        'the elementary matrix written from its definition (translation, Rodrigues rotation about the normalised axis, diagonal scale, the shear matrix of the manual); gtx/transform, transform2 '
        '(shear*2D/3D, reflect, proj, scaleBias), rotate_vector (rotate, rotateX/Y/Z), rotate_normalized_axis, matrix_transform_2d and axisAngleMatrix / extractMatrixRotation are compared the same way; '
        'lookAtRH/LH lanes equal the textbook rows (s, u, -+f) and satisfy, on their own lanes, L*(eye,1) = (0,0,0,1), s.d = u.d = 0, z(d) = -+|d| and y(up) = |d x up|^2 * positive factors; '
        'recompose() equals perspective-row * translate * mat4_cast * skews * scale composed from GLM\'s own factors, in the scalar type of its arguments; decompose() of that composition with symbolic '
        'components (unit quaternion, positive scales, M[3][3] = 1) returns, on every path of its decision tree (guards, flip, trace / largest-diagonal extraction with its data-dependent index permutation), '
        'the composing scale, skew, translation, perspective and +-orientation, every intermediate reduced modulo |q| = 1.',
   note='Algebraic identities over exact real arithmetic for all M, vectors, angles (cos/sin uninterpreted). Not decided: decompose for negative scales / M[3][3] != 1, axisAngle(), interpolate(), float rounding differences between fast and _slow paths. The 2D shearX/shearY of matrix_transform_2d are decided '
        'convention-independently (pure shear, shearY the transposed slot of shearX) because the manual does not write their matrix down. lookAt handedness dispatch is decided under C08.',
   technique='abstract interpretation of instantiated LLVM IR into rational normal forms; comparison with elementary-matrix products written in a specification DSL; polynomial identities for lookAt')
NOT_APPLICABLE.pop('C09', None)

CHECKS['C04'] = dict(level='proof',
   text='Under both quaternion memory orders (default and GLM_FORCE_QUAT_DATA_WXYZ), float and double: q*p / operator*= / cross(q,p) equal the Hamilton product; q*v, rotate(q,v), mat3_cast(q)*v, mat4_cast(q)*v '
        'equal the vector part of q (0,v) conj(q) modulo |q| = 1 (v*q the inverse rotation); mat3_cast(q1*q2) == mat3_cast(q1)*mat3_cast(q2); q*inverse(q) == 1, inverse == conjugate for unit q; '
        'angleAxis(a,v) == (cos a/2, v sin a/2), its matrix is the Rodrigues matrix, rotate(q,a,v) == q*angleAxis(a, normalised v); angleAxis(angle(q), axis(q)) == q in every regime of angle()/axis(); '
        'qua(euler) == angleAxis(z)*angleAxis(y)*angleAxis(x); quat_cast(mat3_cast(q)) is parallel to q with unit norm in each of the four largest-component branches (so +-q); qua(u,v) and gtx rotation(u,v) '
        'map u onto the direction of v; eulerAngleX/Y/Z are the textbook axis rotations and all 6 two-axis, 12 three-axis builders, yawPitchRoll and orientate3/4 equal the product of their factors; every '
        'extractEulerAngleABC(eulerAngleABC(t1,t2,t3)) hands each atan2 a positive multiple (cos t2 / sin t2 / 1) of (sin t, cos t) of the angle it must reproduce.',
   note='Identities over exact real arithmetic modulo |q| = 1 and sin^2 + cos^2 = 1, inverse-trig principal-value axioms for angle()/axis(); a refutation always carries an explicit rational witness on the unit sphere. '
        'Not decided: quat(eulerAngles(q)) (roll/pitch/yaw atan2 guards with half angles), the opposite-vectors arms of qua(u,v)/rotation(u,v), dual quaternions, accuracy near singular configurations, '
        'the Euler extraction outside its regime (cos t2 > 0 resp. sin t2 > 0).',
   technique='abstract interpretation of instantiated LLVM IR into polynomial normal forms; ideal-membership by reduction modulo the unit-norm and Pythagorean relations; decision-tree exploration of branchy code; configuration differential (both quaternion layouts)')
NOT_APPLICABLE.pop('C04', None)

CHECKS['C11'] = dict(level='other',
   text='Every constant of ext/scalar_constants and gtc/constants (30 functions x float/double) returns exactly the bit pattern of the correctly rounded value of the quantity it names (reference computed to 80 '
        'digits); abs, sign, floor, ceil, trunc, round, fract, mod, min, max, clamp, step, smoothstep, mix (float and bool), fma, isnan, isinf, modf, frexp, ldexp are term-equal / ring-equal / equal over all '
        'operand orderings to their GLSL definitions; the four bit-cast functions are the identity on the bit pattern; fmin / fmax with 2, 3, 4 operands and fclamp return the min / max of the non-NaN operands '
        'for every ordering x NaN pattern; floor/ceil/trunc/round/roundEven map NaN to NaN and +-inf to +-inf (float-class abstract evaluation); iround / uround are conversions of round(x), not the '
        'int(x + 0.5) idiom; clamp/repeat/mirrorClamp/mirrorRepeat(texcoord) lie in [0, 1] by interval evaluation.',
   note='The statement quantifies over all 2^32 float patterns; only the clauses visible in the instantiated code are decided (definitions by shape, constants by literal, NaN/inf by abstract classes, ranges by '
        'intervals).  Not decided: that libm round/floor/... themselves return the nearest integer, roundEven\'s tie arithmetic, numeric accuracy of smoothstep/mix, gtx/compatibility and gtx/common helpers.',
   technique='abstract interpretation of instantiated LLVM IR into terms; comparison with definitions over the order x NaN domain and the float-class domain; literal check of constants against independently computed correctly rounded values; interval evaluation')
NOT_APPLICABLE.pop('C11', None)

CHECKS['C13'] = dict(level='proof',
   text='slerp, mix, shortMix (float, double): on every path of the decision tree (negation for the shorter arc, linear fallback above 1 - epsilon) the end points a = 0 / a = 1 give x / +-y; on the spherical arm '
        '|result|^2 = 1, x . result = cos(a theta) and z . result = cos((1 - a) theta) (position on the arc at the fraction a of the angle, any a), the angle is acos(|x.y|) with z = -y exactly where x.y < 0, acos and the '
        'division by sin(theta) are only reached with cos(theta) < 1 - epsilon; slerp(x,y,a) = sign(x.y) slerp(y,x,1-a); lerp is x(1-a) + y a exactly; fastMix returns the end points for unit operands.',
   note='Identities modulo |x| = |y| = 1, the angle-difference formulas, cos(acos c) = c, sin(acos c) = sqrt(1 - c^2). Not decided: unit length on the linear-fallback arm (within epsilon only), NaN freedom for inputs that '
        'are not exactly unit, the spin-count variant (integer multiples of the rounded pi), squad / intermediate, dual-quaternion lerp.',
   technique='abstract interpretation of instantiated LLVM IR into polynomial normal forms with trigonometric atoms; decision-tree exploration; reduction modulo unit-norm and Pythagorean relations; rational witnesses on the unit spheres for refutations')
NOT_APPLICABLE.pop('C13', None)

CHECKS['C18'] = dict(level='other',
   text='bitfieldInterleave (2, 3, 4 operands; 8/16/32-bit; signed, unsigned and vec2 forms) places bit i of operand k at result bit n*i + k and nothing else, bit for bit, and bitfieldDeinterleave(bitfieldInterleave(x, y)) is the '
        'identity selection; mask(n), bitfieldFillOne/FillZero(v, first, count), bitfieldRotateLeft/Right(v, s) are the documented bit patterns / permutations of v for every constant parameter in range (all 8/16-bit '
        'parameters, boundary sets for 32/64-bit; all widths and signednesses in the thorough tier); isPowerOfTwo(x) is popcount(|x|) < 2; ceil/nextPowerOfTwo are a complete smear ladder (every bit of the value before the '
        'final + 1 is the OR of all higher-or-equal bits of |x| - 1) times GLM\'s own sign(x) for signed types; floor/prev/roundPowerOfTwo return x exactly under isPowerOfTwo(x) and otherwise 1 << findMSB(x) (roundPowerOfTwo the '
        'nearer of that and its double); isMultiple is x % m == 0; ceil/floor/round/next/prevMultiple for int, uint, float, double (sized ints in the thorough tier): on every path of the decision tree, substituting the division '
        'relation dividend = q m + r makes the result a multiple of m whose distance to x lies in the window of the named direction for every remainder the path admits (exact multiples map to themselves).',
   note='Holds for all inputs because each clause is a statement about the instantiated term: bit placement, OR-sets, sibling terms, or a linear form in (m, r) over the whole remainder range. A refutation of a multiple function always '
        'exhibits small integers (x, m) at which the path conditions hold and the value of the derived normal form is not the next/previous/nearest multiple; a refutation of a bit pattern is a pure placement difference or a '
        'constant-folded witness value. Not decided: findNSB (loop), integer log2/sqrt/pow/factorial/mod of gtc/gtx integer and gtx/bit (loops or value arithmetic), wrap-around of the multiples near the type limits, the value of findMSB itself '
        '(C05), vector overloads (lane uniformity against these scalar forms is C01). One known finding: both rotate functions rotate in the direction opposite to their name and documentation.',
   technique='bit-placement normal forms and OR-set abstract domain over instantiated LLVM IR; sibling term identity; decision-tree exploration with symbolic remainder analysis (linear forms over the remainder range)')
NOT_APPLICABLE.pop('C18', None)

CHECKS['C19'] = dict(level='other',
   text='YCoCg2rgb(rgb2YCoCg(c)) == c and the converse, and the same for rgb2YCoCgR / YCoCgR2rgb, as rational identities for float and double; for every integer element type (int8 ... uint64) the composed kernel '
        'YCoCgR2rgb(rgb2YCoCgR(c)) (and the converse) reduces to the input lanes themselves, i.e. the integer transform is exactly lossless for every input of the type. convertLinearToSRGB / convertSRGBToLinear (default and '
        'explicit gamma, vector lengths 1-4, float and double): every colour lane is the same two-segment function of its own component, alpha is the input alpha, the encoder clamps to [0, 1]; the constants read off the two '
        'functions agree as inverse curves need (slopes and power-segment scales reciprocal, offsets equal, exponents reciprocal, thresholds corresponding through the linear segment, 5e-5 relative); f(0) == 0 and '
        'f(1) == 1 within 1e-6; both segments increase and the power segment does not start below the linear one at the junction. saturation(s) has rows summing to 1 for every s (grey preserved), is the blend '
        '(1 - s) * luminance + s * identity, and its vector overloads apply it; luminosity is the dot product with the documented (0.33, 0.59, 0.11).',
   note='Decided: the algebra of the round trips (all inputs), lane discipline and alpha pass-through, writer/reader agreement of the sRGB constants, fixed points, junction continuity by evaluating the constants of the code with '
        'mpmath. Not decided: numeric accuracy of pow-based round trips, monotonicity inside a segment beyond the signs of its parameters, the lowp fast approximation, rgbColor / hsvColor (sector arithmetic with floor and '
        'epsilon comparisons). Known finding: the explicit-gamma overloads are discontinuous (not monotone, encoder leaves [0, 1]) for gamma away from 2.4. Level "other": mixed structural rule set.',
   technique='polynomial / term normal forms of composed kernels over instantiated LLVM IR; structural extraction of curve parameters and writer/reader constant agreement; partial evaluation of constants')
NOT_APPLICABLE.pop('C19', None)

CHECKS['C20'] = dict(level='other',
   text='Obligation inventory over the anchored files: abs, sign, bitfieldExtract/Insert/Reverse, bitCount, findLSB/MSB, mask, rotate, fill, the power-of-two and multiple families (int, uint, int8, uint64; all sized types in the '
        'thorough tier), carry/borrow/extended multiply, interleave, roundEven, round, iround, uround, mod, frexp/ldexp, bit casts, lowp inversesqrt, all pack functions and a set of unpack functions, component access with a run-time '
        'index, integer vector operators, bool loads — each instantiated with -fsanitize=signed-integer-overflow,shift,float-cast-overflow,integer-divide-by-zero,bounds,bool,enum as traps. Every check that survives -O2 is a proof '
        'obligation with its exact reachability condition over the inputs; it is discharged by interval abstract interpretation inside the function\'s documented input box (shift counts 0..width-1, bit counts 0..width, '
        'offset + bits <= width, multiples >= 1, finite floats ...), or refuted by an explicit in-box input at which the condition evaluates to true, or tabled as the caller\'s own arithmetic (integer vector operators only).',
   note='Decides: no sanitizer-observable UB of the instrumented kinds inside the boxes for the functions listed; a removed guard (clamp before a conversion, the width test of mask, a mask before a shift) resurrects its obligation and '
        'is refuted by a boundary witness. Not decided: UB kinds UBSan does not instrument (aliasing, uninitialised reads, library calls such as std::abs(INT_MIN)), address-sanitizer classes beyond -fsanitize=bounds, independence of the '
        'optimisation level as such, the SIMD paths, functions with loops (toFloat32 in unpackHalf, findNSB), variable-index matrix/quaternion access (engine limitation), 1 << findMSB(x) in floor/prev/roundPowerOfTwo (needs the bit-count '
        'bound), packF3x9_E1x5, overflow of the multiples / powers of two near the type limits (boxes stop at a quarter of the range). Five defects were found and repaired (sign, findLSB, mask, bitfieldInsert on signed types; roundEven beyond 2^31).',
   technique='sanitizer instrumentation used statically: UBSan trap blocks in optimised LLVM IR as proof obligations; path conditions by abstract interpretation; interval domain with conjunct-wise refinement; witness evaluation of the condition term')
NOT_APPLICABLE.pop('C20', None)

CHECKS['C07'] = dict(level='proof',
   text='unpackHalf1x16 / packHalf1x16 (detail::toFloat32 / toFloat16) decided for all 2^16 half and all 2^32 float bit patterns by exhaustive shape analysis: the input space is partitioned into 768 shapes (sign symbolic, exponent field '
        'constant, the mantissa bits the code branches or carries on fixed, all other mantissa bits symbolic); on every shape the lane term derived from the instantiated code must be identical to the bit pattern IEEE-754 prescribes: '
        'half -> float is the binary32 encoding of the binary16 value (+-0, the 10 subnormal alignments, 30 normal exponents, infinities, NaN with sign and payload); packHalf(unpackHalf(h)) == h for every pattern; float -> half is +-0 below 2^-25, '
        'round-half-up of (2^23 + M) / 2^(14 - e) in the subnormal range, ((e << 10) | M >> 13) + bit 12 with the carry running into the exponent in the normal range (so 65520 and above become +-infinity), infinity and NaN kept, '
        'sign copied in every shape.',
   note='The renormalisation loop of toFloat32 is peeled by the optimiser (12 iterations) and the check requires the residual back edge to be dead on every shape. Round-half-up on the discarded bits returns a nearest half (upper neighbour '
        'in magnitude on a tie), which the property allows. Not separately decided: monotonicity (a consequence of round-half-up and the carry into the exponent), the lane plumbing of packHalf2x16/4x16/packHalf<L> and the hvec types (C06).',
   technique='exhaustive case analysis over symbolic bit-pattern shapes: substitution of each shape into the lane term of the instantiated LLVM IR and normalisation to a bit placement (known-bits folding of compares, shifts and constant additions)')
NOT_APPLICABLE.pop('C07', None)


# ---- amendments after the later strengthening rounds (text appended to the claims above) ----
def _amend(pid, text='', note=''):
    CHECKS[pid]['text'] = CHECKS[pid]['text'].rstrip() + ' ' + text if text else CHECKS[pid]['text']
    CHECKS[pid]['note'] = CHECKS[pid]['note'].rstrip() + ' ' + note if note else CHECKS[pid]['note']

_amend('C01', 'findNSB (data-dependent loop) is compared with its loop peeled in both kernels; integer lanes whose terms differ are refuted only with an explicit bit-pattern witness.')
_amend('C03', 'Padding independence: no float result lane of the intrinsic build is computed from the hidden fourth lane of an aligned vec3 operand.')
_amend('C04', 'Every quaternion kernel is additionally compared under GLM_FORCE_QUAT_DATA_XYZW (constructor argument order); rotation(u, -u): the vector part is unit and perpendicular to u on every arm and the guess axis handed to normalize() cannot vanish.')
_amend('C05', 'findLSB / findMSB are decided for every value by case analysis on the position of the deciding bit (all other bits symbolic), including the GLSL rule for negative arguments; the scalar overloads and the aligned vec4 forms are also instantiated in the intrinsic (AVX2) configuration.',
       'Superseded: findLSB / findMSB are now decided (shape analysis).')
_amend('C08', 'The dispatch rule also covers the half-suffixed forms whose explicit half differs from the configuration (e.g. perspectiveFovZO under LEFT_HANDED only).')
_amend('C09', 'gtx axisAngle() on the exact half turn 2 n n^T - I returns +-n (unit, parallel) and pi on every branch.')
_amend('C11', 'roundEven returns the even neighbour on every tie (x = +-(2k + 1/2), +-(2k + 3/2) with k an integer symbol); gtx/common fmod is std::fmod per component in the element type, openBounded / closeBounded, gtx/compatibility lerp, saturate, isfinite equal their definitions.')
_amend('C13', 'The spin-count overload slerp(x, y, a, k) is decided like slerp (end points with sin(k pi) = 0, unit length, arc position a (theta + k pi)) and equals slerp for k = 0; every function returns the same components under GLM_FORCE_QUAT_DATA_WXYZ and GLM_FORCE_QUAT_DATA_XYZW; residuals on the spherical arm are refuted with rational-trigonometry witnesses.')
_amend('C14', 'floatDistance / float_distance is |key(x) - key(y)| on the monotone integer scale for every sign combination (magnitudes symbolic); epsilon and ULP equal also for non-square matrices.',
       'Superseded: floatDistance is now decided.')
_amend('C15', 'Besides the clang view, the language-level configurations are analysed in the g++ preprocessor view (standard headers first, then __clang__ undefined and __GNUC__ = 12 before the GLM headers), which is what compiles the !GLM_HAS_INITIALIZER_LISTS / pre-C++11 arms; the default-configuration kernels of C04 C05 C06 C08 C09 C11 C13 C18 C19 are part of the corpus.')
_amend('C17', 'Conversion chains that differ from the prescribed static_cast are refuted with a bit-pattern witness.')
_amend('C18', 'gtc log2, gtx nlz and lowestBitValue by shape analysis; gtx pow(x, n) for constant n = 0..4 as polynomial identities; unsigned mod; factorial on its whole domain 0..12; an incomplete smear ladder is refuted with the witness x = 2^j + 1.',
       'Second known finding: gtx pow(negative, 0) returns -1 (asserted by the repository test).')
_amend('C20', 'Separate vector overloads are part of the corpus; conditions going through bit ladders (1 << findMSB(x)) are discharged by case analysis on the highest set bit.')
_amend('C02', 'ext/matrix_common mix (scalar and matrix interpolant) and abs are the element-wise definitions for all nine shapes.')
_amend('C13', 'Dual-quaternion lerp is the affine blend x (1 - a) + y (+-a) of all eight components with the sign of dot(x.real, y.real), on both decision paths; dual-quaternion normalize divides by |real|.')
_amend('C16', 'Conversions between aligned and packed vectors (every length, element type, qualifier pair) and matrices keep the element order in the SIMD configurations.')
_amend('C17', 'Writable swizzles: scalar fill, += -= *= /= with a vector, and assignment / compound assignment of a whole-vector swizzle from the vector itself (aliasing) change exactly the named lanes with the prescribed values.')
_amend('C18', 'The multiple family is decided for the 8- and 16-bit types in every tier: the dividend of the remainder is read at the width it is computed in and must not wrap on the x-range of its path; undecided paths of the narrow types are refuted by exact evaluation of the derived term at the corners of the range.')
_amend('C04', 'roll / pitch / yaw / eulerAngles: for q = qua(e) the arguments of the returned atan2 are (sin a cos y, cos a cos y) and of asin sin y identically; in gimbal lock roll is 0 and pitch is p -+ r; the fallback is taken only when both regular arguments are below epsilon (else refuted with a rational unit quaternion).')
_amend('C09', 'axisAngle() on a rotation matrix in general position returns sign(s) n and acos(c) on every path outside the near-symmetric branch; interpolate() is axisAngleMatrix(axis, angle * delta) * rot(m1) with (axis, angle) = axisAngle(m2 * transpose(rot(m1))) and the translation blended affinely (sub-functions kept as opaque calls).')
_amend('C10', 'The same definitions are checked for the aligned matrix types of the SIMD configurations (SSE2; AVX2 and double in the thorough tier), which have their own inverse / determinant code.')
_amend('C11', 'The GLSL definitions are checked for the scalar overload and for every vector length, including the mixed vector / scalar overloads; step is total (a NaN operand gives 1).')
_amend('C03', 'Undecided class A / class B pairs are refuted by exact evaluation of both derived terms (ties, the 2^23 boundary, O(1) pools); lowp hardware approximations are decided by an error-factor argument (intrinsic lane == pure lane times or over one factor 1 + e, |e| <= 1.5 * 2^-12).')
_amend('C20', 'A run-time index into an object of known size yields one alternative per element and an out-of-bounds obligation; the half decoders are analysed with the loop peeled and discharged on the 52 shapes of a half code; the ladders of the signed power-of-two functions by case analysis on x - 1.')
_amend('C01', 'The lowp accuracy clause (inversesqrt: relative error below 2^-8) is decided by interval analysis of the derived lane term over [1, 4) plus the exact 4^k scaling of the bit trick.')
_amend('C03', 'Double is compared for the matrix, geometric and common operators and the splat helpers; the AVX level (AVX-only arms of the 256-bit double code) is part of the quick tier for double.')
_amend('C04', 'rotation(u, v): the identity shortcut for nearly parallel vectors must have a threshold within 16 epsilon of 1 for the element type.')
_amend('C20', 'gtx/integer (pow for fixed exponents, mod, floor_log2, nlz) is part of the corpus.')
# ---- session of 2026-10-02 ----
_amend('C04', 'Dual quaternions (gtx/dual_quaternion, only its own header included): product, point transform q (0,v) conj(q) + 2 d conj(q) and its inverse, x * inverse(x) == 1, the constructor from rotation and translation ((0,t) q / 2), '
       'mat2x4 casts by component name, mat3x4_cast rows == (rotation matrix row, translation component), and dualquat_cast(mat3x4_cast(x)) == +-x on every branch of the largest-component selection for unit dual quaternions '
       '(refuted with exact rational unit quaternions from Pythagorean quadruples).', 'Superseded: dual quaternions are now decided (rules/c04_dq.py).')
_amend('C06', 'The templated packUnorm / packSnorm / unpackUnorm / unpackSnorm are analysed for 8-, 16-, 32- and 64-bit codes with float and double (scale 2^w - 1 resp. 2^(w-1) - 1 exactly, decoder factor its correctly rounded reciprocal in floatType, lane i <-> code i).',
       'Known finding: with 32-bit codes and float, or 64-bit codes and float / double, the scale is not representable and x = 1 converts out of range (undefined, optimisation-level dependent).')
_amend('C12', 'gtx lxNorm (both overloads): (sum_i |d_i|^p)^(1/p) with p = float(Depth) - outer / inner exponents and the three bases |d_x|, |d_y|, |d_z|; lMaxNorm == max of the absolute values.')
_amend('C03', 'The corpus is compared once more in the g++ preprocessor view of the SIMD headers (compiler-keyed arms such as _mm256_fmadd_pd in compute_fma<4, double>), at AVX2 with and without FMA; an arm that does not compile at a level is an existence violation.')
_amend('C15', "C17's default-configuration constructor kernels (vector, matrix incl. mixed-type columns / elements, quaternion) are part of the language-level differential.")
_amend('C17', 'Matrix constructors from columns and from scalars of mixed element types (the templated V1..V4 / X1..W4 constructors) for all nine shapes.')
_amend('C20', 'Memory clause (out-of-bounds / misaligned access, strict aliasing): the kernels of all rule modules plus layout-sensitive kernels (packHalf / unpackHalf<L>, templated pack functions, bit casts, make_* from packed objects, lowp inversesqrt) under the '
       'intrinsic configurations are inspected by irtool --memcheck on the inlined but otherwise unoptimised IR: every load, store and constant-length memcpy / memmove / memset at a constant offset of a local object, kernel argument or global must lie inside the object '
       'and be sufficiently aligned; a typed scalar memory intrinsic (plain float / double access in the baseline compiler\'s headers: _mm_store_sd, _mm_store_ss, _mm_load_ss, _mm_load1_pd ...) may only touch members of that scalar type (strict aliasing).',
       'Superseded for the memory clause: out-of-bounds / misaligned constant-offset accesses and typed-intrinsic puns are now decided, including the SIMD paths. Not decided there: accesses through run-time indices (sanitizer inventory) or pointers loaded from memory, '
       'aliasing violations other than through the listed intrinsics. Known finding: make_matCx3 under GLM_FORCE_DEFAULT_ALIGNED_GENTYPES reads C * 4 elements. Six defects found by the memory rules were repaired (out-of-bounds reads in the dvec3 conversion, packHalf / unpackHalf<3>, make_vec3; '
       'strict-aliasing violations in the vec3 conversions, which g++ -O2 miscompiled).')
CHECKS['C20']['technique'] = CHECKS['C20']['technique'] + '; object-bounds / alignment / typed-access analysis of constant-offset memory accesses on inlined unoptimised LLVM IR (irtool --memcheck)'
_amend('C01', 'Float lanes whose terms differ are refuted when the two derived terms, evaluated by the concrete term evaluator at float bit patterns (integers, ties, signed zeros, extreme magnitudes), return different values.')
_amend('C02', 'The same definitions are checked for the aligned float matrix types of the SSE2 configuration (AVX2, double, int and mediump in the thorough tier): simd/matrix.h and func_matrix_simd.inl have their own product / transpose / outerProduct code.')
_amend('C06', 'A decoder whose shape is not recognised is evaluated (derived term) at the boundary codes of its field and refuted when a code does not decode to code / S (clamped for snorm).')
_amend('C09', 'A definition comparison that ends in different sin / cos / inverse / sqrt normal forms is refuted with a rational witness (independent angles as rational points of the unit circle).')
_amend('C11', 'iround / uround must convert round(x) with the conversion of their own signedness.')
_amend('C13', 'A spherical-arm guard whose only bound on cos(theta) admits cos(theta) = 1 is refuted (sin(0) / sin(0) for x == y).')
_amend('C16', 'One is_same fact per typedef that gtc/type_aligned.hpp declares (names enumerated from the header): storage, precision, element type and shape spelled by the name.')
_amend('C18', 'floor / prev / roundPowerOfTwo are analysed for 8-, 16-, 32- and 64-bit types in every tier; a result term that is not 1 << findMSB(x) is refuted with the witness x = 2^j + 1.')
_amend('C19', 'A division by zero on the evaluated path of an HSV round-trip case is refuted when the derived terms, evaluated at the sample colour of the case, do not return it.')
_amend('C01', 'gtx/component_wise: compAdd / compMul as polynomial identities, compMin / compMax / fcompMin / fcompMax as the left fold of the scalar overload, compNormalize / compScale per lane against their definitions (rules/c01_cw.py).')
_amend('C04', 'ext/quaternion_exponential: exp against its definition (identity for a vanishing vector part, no uninitialised component), the threshold of the real-number shortcut of pow <= epsilon^2, sqrt == pow(q, 1/2).')
_amend('C04', 'log(qua) against its definition on all four arms; quatLookAt is quatLookAtRH (quatLookAtLH under GLM_FORCE_LEFT_HANDED), quatLookAtLH(d, up) == quatLookAtRH(-d, up), quatLookAtRH == quat_cast of the frame (right, cross(-d, right), -d).')
_amend('C16', 'The square aliases make_mat2 / make_mat3 / make_mat4 copy lane for lane; make_vecN(vecM) keeps the leading min(N, M) components in order (padding values are not judged).')
_amend('C02', 'A float quotient (mat / scalar, scalar / mat, mat /= scalar) must be the single division of the two lanes: an algebraically equal form with a second rounding (multiplication by the reciprocal) is refuted with a bit pattern at which the two derived terms differ; integer lanes that are not the division term are refuted by a bit-pattern witness.')
_amend('C17', 'Swizzle proxies as operands (operator form): scalar - / * swizzle and swizzle + - * / swizzle / vector in both operand orders give lane j = lhs_j OP rhs_j as an exact term.')
_amend('C18', 'Undecided multiple paths of unsigned 32- / 64-bit types are refuted by exact evaluation of the derived term at corners that include multiples above half the range (modular arithmetic: every input with a representable answer is in the domain).')
_amend('C19', 'The lowp vec3 specialisation of convertLinearToSRGB is the published root approximation c1 x^(1/2) + c2 x^(1/4) - c3 x^(1/8) - c4 x per component (constants as cited, s(1) = 1); its accuracy against the exact curve is not re-derived.')
_amend('C10', 'Narrowing: a conversion to a narrower float format inside the term of a double result (a double value stored in a float temporary) refutes the entry - the normal forms read float arithmetic as exact and would not see it. The same test runs in the polynomial rules of C02 and in every rule built on spec.compare.')
_amend('C14', 'A step term that is not a next-after chain on the component is evaluated exactly at sample values and refuted when it is not the n-th neighbour in the component\'s own format.')
_amend('C09', 'decompose(): conditioning of the quaternion extraction (structural): a comparison that guards sqrt(trace + 1) by a lower bound c on the trace must have c >= -3/4 (divisor at least 1/2; the reference uses 0). Necessary condition only - the accuracy of recompose(decompose(M)) is not bounded.')
_amend('C14', 'The overloads that take one step count per component (a vector of ints) are analysed like the (vec, int) ones.')
_amend('C05', 'A bitfieldReverse lane that is not a pure bit function is evaluated at the one-hot patterns, all ones and a mixed pattern.')
_amend('C03', 'The class-A / class-B witnesses evaluate CVTTPS2DQ / CVTPS2DQ as the SDM defines them (integer indefinite for NaN and out-of-range values), so SSE2 arms built on the integer conversion can be separated from the pure build at explicit inputs.')
_amend('C02', 'scalar + matrix and scalar - matrix (square shapes only) are part of the element-wise rule set.')
_amend('C18', 'bitfieldInterleave: a result bit that is not a plain selection of an operand bit is evaluated at the one-hot input that should set only that bit.')
_amend('C11', 'modf that is not the library call is evaluated at -3, -0, +-inf and +-2.5: both parts carry the sign of x and the fraction of an infinity is a zero.')
_amend('C06', 'A pack field whose shape is not conv(round(clamp * S)) is evaluated at component values whose scaled value is not a tie and refuted when the code is not round(clamp(v) * S).')
_amend('C04', 'Undecided regimes of the angle / axis round trip are refuted when the derived lanes, evaluated at unit quaternions on both sides of the asin / acos switch (host libm, tolerance 1e-3), are neither q nor -q.')
_amend('C04', 'Narrowing (rules/narrow.py): no lane term of a kernel with a double result may contain a conversion to a narrower float format (a double value stored in a float temporary has float accuracy only, which the exact-arithmetic normal forms cannot see); kernels with float inputs are exempt.')
_amend('C08', 'Narrowing (rules/narrow.py): no lane term of a kernel with a double result may contain a conversion to a narrower float format (a double value stored in a float temporary has float accuracy only, which the exact-arithmetic normal forms cannot see); kernels with float inputs are exempt.')
_amend('C09', 'Narrowing (rules/narrow.py): no lane term of a kernel with a double result may contain a conversion to a narrower float format (a double value stored in a float temporary has float accuracy only, which the exact-arithmetic normal forms cannot see); kernels with float inputs are exempt.')
_amend('C12', 'Narrowing (rules/narrow.py): no lane term of a kernel with a double result may contain a conversion to a narrower float format (a double value stored in a float temporary has float accuracy only, which the exact-arithmetic normal forms cannot see); kernels with float inputs are exempt.')
_amend('C13', 'Narrowing (rules/narrow.py): no lane term of a kernel with a double result may contain a conversion to a narrower float format (a double value stored in a float temporary has float accuracy only, which the exact-arithmetic normal forms cannot see); kernels with float inputs are exempt.')
_amend('C20', 'The five multiple functions are also analysed on one-point boxes at both ends of the signed 32- / 64-bit ranges (x = max - 1 and min + 2 with m = 3, where the answer is representable).')
_amend('C10', 'The aligned double matrix types of the SSE2 configuration are analysed in the quick tier as well (the aligned inverse(mat3) for double runs on the generic vec4 cross-product overload).')
_amend('C17', 'The SIMD swizzle specialisations are instantiated for float, int and uint (and double under AVX2 in the thorough tier), for 2-, 3- and 4-component results from aligned sources.')
_amend('C15', 'The floor-based portable spellings of trunc and round (the pre-C++11 fallbacks) are read as the functions they are (exact identities), so those configuration pairs are proved rather than left undecided; the bit-pattern witness tries the half-way boundary inputs (predecessor of one half, odd integers of the last binade, signed zero).')
_amend('C05', 'A findLSB / findMSB shape that does not normalise is evaluated (derived term) at members of the shape and refuted on a wrong value.')
_amend('C06', 'Templated packHalf<L> / unpackHalf<L> lane plumbing; packRGBM / unpackRGBM against their definition (m = ceil(clamp(max(c) / 6, 0, 1) * 255) / 255, colour lanes (c / 6) / m, decoder rgb * m * 6).')
_amend('C08', 'infinitePerspectiveLH / RH are part of the dispatch rule (a declared but undefined API function is an existence violation); tweakedInfinitePerspective == infinitePerspectiveRH_NO + ep * E (default ep = epsilon<T>()); pickMatrix == translate * scale of the pick region under its delta > 0 guard; float and double in every tier.')
_amend('C09', 'gtx/rotate_vector slerp(vec3, vec3, a) against sin((1 - a) t) / sin t, sin(a t) / sin t with t = acos(x . y); orientation(n, up) == identity when equal within epsilon, else rotate(acos(n . up), up x n).')
_amend('C10', 'gtx/matrix_operation diagonalCxR, gtx/matrix_factorisation fliplr / flipud as selections; gtx/matrix_query isNull / isIdentity / isNormalized / isOrthogonal are the conjunction of exactly the comparisons of their definition (boolean structure compared as a BDD, comparisons as polynomials); '
       'qr_decompose is the modified Gram-Schmidt formula for 2x2, 3x3, 3x2, 2x3 (4x4 in the thorough tier) - the classical variant, equal in exact arithmetic but with an orthogonality loss quadratic in the condition number, is refuted structurally.',
       'Superseded: gtx matrix_query and qr_decompose are now decided (rules/c10_aux.py); rq_decompose is not analysed separately (it calls qr_decompose on the flipped transpose).')
_amend('C11', 'The NaN-aware rule covers the vector overloads of fmin / fmax (2-4 operands, vector and scalar second operand) and fclamp (vector and scalar bounds) for every length.')
_amend('C13', 'squad / intermediate with their primitives (mix, slerp, exp, log, inverse) kept as opaque calls are the documented compositions.', 'Superseded: squad / intermediate are decided as compositions.')
_amend('C18', 'gtx/integer sqrt(int) / sqrt(uint): the kernel with a constant argument must fold to floor(sqrt(n)) for small values, k^2 - 1, k^2, k^2 + 1 and the type maxima.')
_amend('C18', 'gtx/bit highestBitValue / powerOfTwoAbove / powerOfTwoBelow / powerOfTwoNearest and ext findNSB(x, n): the kernel with a constant argument must fold (loops peeled) to the value of the documented definition for zero, powers of two, their neighbours, the ties of powerOfTwoNearest and the type maxima.')
NOTES = NOTES + ' Scheduling is deterministic: cases are dealt round-robin into 64 partitions, each run in a freshly forked worker, so hash-consed term ids (which order commutative operands) do not depend on which worker was free; floors (rules/expect.json) are exact decided counts.' if isinstance(NOTES, str) else NOTES
