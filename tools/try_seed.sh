#!/bin/sh
# usage: tools/try_seed.sh <dir with patch.diff [demo.cpp]> <property ids...>
# applies the patch to /repo, runs the quick checks of the given properties, shows the verdicts, and ALWAYS restores /repo.
d=$1; shift
cd /repo || exit 2
if ! git diff --quiet -- glm; then echo "/repo has local modifications; refusing"; exit 2; fi
git apply "$d/patch.diff" || { echo "patch does not apply"; exit 2; }
# the checks rewrite evidence/ and replay/: keep the unchanged-tree records, a seeded run must never end up in a commit
bk=$(mktemp -d /tmp/seed_evidence.XXXXXX); cp -a /verif/evidence $bk/evidence; cp -a /verif/replay $bk/replay 2>/dev/null
trap 'git -C /repo checkout -- . ; rm -rf /verif/evidence /verif/replay; cp -a $bk/evidence /verif/evidence; cp -a $bk/replay /verif/replay 2>/dev/null; rm -rf $bk' EXIT INT TERM
if [ -f "$d/demo.cpp" ]; then
  flags=$(head -1 "$d/demo.cpp" | sed -n 's/^\/\/ *flags: *//p')
  g++ -std=gnu++17 -I/repo $flags "$d/demo.cpp" -o /tmp/seed_demo 2>/tmp/seed_demo.err && { /tmp/seed_demo >/tmp/seed_demo.out 2>&1; echo "demo with patch: exit $?"; } || echo "demo does not compile with patch: $(head -3 /tmp/seed_demo.err)"
fi
cd /verif
for p in "$@"; do
  ./check $p --tier ${TIER:-quick} > /tmp/seed_check_$p.log 2>&1; rc=$?
  echo "== $p exit $rc: $(grep -c '^VIOLATION' /tmp/seed_check_$p.log) VIOLATION lines; $(tail -1 /tmp/seed_check_$p.log)"
  grep -A3 '^VIOLATION' /tmp/seed_check_$p.log | head -${SHOW:-12}
  grep 'ANALYSIS-BROKEN' /tmp/seed_check_$p.log | head -3
done
