#!/bin/sh
# developer helper: re-run every kept seed (scratch worktree, GLM_REPO override; /repo is not modified) against the check(s) named in its meta.json and print one line per
# (seed, property): "caught" when the check exits 1 with a VIOLATION, otherwise the exit code.   usage: tools/all_seeds_wt.sh [seed-id-prefix]
V=$(cd "$(dirname "$0")/.." && pwd)
cd $V
mkdir -p /tmp/seed
for d in seeded/${1:-}*/; do
  sid=$(basename $d)
  [ -f $d/meta.json ] || continue
  props=$(python3 -c "import json,re,sys; m=json.load(open('$d/meta.json')); det=m.get('detected_by',''); ps=re.findall(r'(C\d\d) quick \(exit 1\)', det) or [m['property']]; print(' '.join(dict.fromkeys(ps)))")
  out=$(SHOW=0 tools/try_seed_wt.sh $V/$d $props 2>&1 | grep "^== \|does not apply")
  echo "$out" | while read line; do
    case "$line" in
      *"exit 1:"*) echo "caught   $sid  $(echo $line | cut -c1-60)";;
      *) echo "NOT      $sid  $line" | cut -c1-220;;
    esac
  done
done
