#!/usr/bin/env python3
"""usage: tools/mkmeta.py <seed id> <property> <breaks> <needs> <detected_by> [<detection_detail>]   -- writes seeded/<id>/meta.json (confirm.txt must exist)"""
import json, os, sys
sid, prop, breaks, needs, det = sys.argv[1:6]
detail = sys.argv[6] if len(sys.argv) > 6 else ''
d = os.path.join(os.path.dirname(os.path.abspath(__file__)), '..', 'seeded', sid)
m = {'seed': sid, 'property': prop, 'breaks': breaks, 'needs_to_manifest': needs,
     'confirmed_by_me': open(os.path.join(d, 'confirm.txt')).read().strip(),
     'what_i_ran': ['tools/confirm_seed.sh (scratch worktree: apply patch, cmake+ninja build of all tests, ctest: 185/185 pass; demo with/without)',
                    'tools/try_seed.sh (git -C /repo apply; ./check; git checkout -- .)'],
     'detected_by': det}
if detail:
    m['detection_detail'] = detail
json.dump(m, open(os.path.join(d, 'meta.json'), 'w'), indent=1)
print('wrote', sid)
