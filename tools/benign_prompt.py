#!/usr/bin/env python3
"""prints the prompt for an independent sub-agent that makes BEHAVIOUR-PRESERVING changes (false-alarm probe): property text only; own scratch worktree"""
import json, sys, subprocess, os
pid, n = sys.argv[1], sys.argv[2]
extra = sys.argv[3] if len(sys.argv) > 3 else ''
prop = [json.loads(l) for l in open('/verif/properties.jsonl') if json.loads(l)['id'] == pid][0]
wt = '/tmp/seed/%s_%s' % (pid, n)
if not os.path.exists(wt):
    subprocess.check_call(['git', '-C', '/repo', 'worktree', 'add', '--detach', wt, 'HEAD'], stdout=subprocess.DEVNULL, stderr=subprocess.DEVNULL)
print(f"""You are helping to evaluate a verification framework for the C++ header-only math library g-truc/glm. Your job is to play the role of a maintainer who refactors code WITHOUT changing what it computes, so that we can see whether the framework raises false alarms.

You have your own scratch git worktree of the library at {wt} (work ONLY there; never touch /repo or /verif, and do not read anything under /verif). There is no network.

The property the framework verifies in this area (this is all you are told about what is being verified):

  ID: {prop['id']} — {prop['title']}
  Statement: {prop['statement']}
  Quantifier: {prop['quantifier']['text']}
  Relevant files: {', '.join(prop['anchors']['files'][:14])}

Task: make FOUR to SIX independent, realistic, behaviour-preserving changes to the library sources under {wt}/glm in the files above, each of the kind a maintainer commits during cleanup or optimisation, for example: rewriting an expression in an algebraically / logically equivalent form that gives the same result for every input inside the documented domain (reordering commutative operands, `a - b` as `-(b - a)` only where exactly equivalent, De Morgan, `x < y ? x : y` style rewrites that keep the same result also for NaN / ties, replacing a helper call by its body or the reverse, loop <-> unrolled code, a different but equivalent bit trick, hoisting a common sub-expression, swapping the order of independent statements, using a sibling overload that is specified to give the same value, changing an intermediate type to a wider one that cannot change the result, restructuring an if / switch / ternary, replacing a magic constant by an equal expression); where the specification (GLSL / the GLM manual) leaves a case undefined (e.g. clamp with minVal > maxVal, shifts by the width, a zero-length vector to normalize) the behaviour there MAY change. The changes must NOT alter the value returned for any input on which the property pins the result down, including floating-point rounding where the property demands identical or exactly-defined values (do not reassociate floating-point sums / products unless the property only asks for agreement up to rounding). {extra}

Requirements:
  1. the library still compiles and the ENTIRE existing test suite still passes;
  2. for each change, write a short equivalence argument (why no in-domain input can tell the difference) and, if you rely on a case being undefined by the specification, say which;
  3. write a program that compares old and new behaviour on many inputs including special values (it must print OK and exit 0 when compiled against BOTH the unchanged library (-I/repo, read-only) and your worktree) as a sanity check of your own reasoning.

How to build and run the existing tests in your worktree (takes ~2-3 minutes; use -j8):
  cmake -G Ninja -S {wt} -B {wt}/_build -DGLM_BUILD_TESTS=ON -DCMAKE_BUILD_TYPE=RelWithDebInfo -DCMAKE_CXX_FLAGS=-Wno-error >/dev/null && cmake --build {wt}/_build -j8 2>&1 | tail -3 && ctest --test-dir {wt}/_build -j8 --timeout 900 2>&1 | tail -5
All 185 tests must pass with your changes.

Deliverables — write them into {wt}/_seed_out/ :
  - patch.diff : output of `git -C {wt} diff -- glm` (all your changes; applies to the unmodified tree with `git apply`)
  - demo.cpp   : the comparison / sanity program described above (compile with: g++ -std=gnu++17 -I<tree> demo.cpp -o demo ; flags it needs in a comment on line 1); exit 0 on both trees
  - notes.md   : one section per change: file / function, what was rewritten, the equivalence argument, any reliance on specification-undefined cases; and the exact commands you ran with their results
Do NOT use `git stash` (shared by all worktrees; other people work in sibling worktrees). Remove {wt}/_build when you are done to save disk. Report back in a few lines what you changed and whether everything was verified.""")
