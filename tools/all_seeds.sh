#!/bin/sh
# developer helper: re-run every kept seed against the check(s) named in its meta.json ("detected_by" starts with the property id) and print the verdicts.
cd /verif
for d in seeded/*/; do
  sid=$(basename $d)
  props=$(python3 -c "import json,re,sys; m=json.load(open('$d/meta.json')); print(' '.join(sorted(set(re.findall(r'C\d\d', m.get('detected_by','') + ' ' + m['property'])))))")
  echo "### $sid -> $props"
  TIER=${TIER:-quick} SHOW=0 tools/try_seed.sh /verif/$d $props 2>&1 | grep "^== \|does not apply"
done
