#!/usr/bin/env python3
"""regenerates MANIFEST.json from tools/manifest_src.py (single source of truth for the per-property claims)"""
import json, os, sys
sys.path.insert(0, os.path.dirname(os.path.abspath(__file__)))
import manifest_src as M
props = [json.loads(l)['id'] for l in open(os.path.join(os.path.dirname(__file__), '..', 'properties.jsonl'))]
checks = []
for pid in props:
    c = M.CHECKS.get(pid)
    if not c:
        continue
    checks.append({
        'property_id': pid,
        'quick_cmd': './check %s --tier quick' % pid,
        'thorough_cmd': './check %s --tier thorough' % pid,
        'evidence_file': 'evidence/%s.json' % pid,
        'replay_cmd_template': './check %s --replay {path}' % pid,
        'engine': 'laneflow',
        'level_claimed': {'category': c['level'], 'text': c['text'], 'design_ref': 'DESIGN.md section 4, ' + pid},
        'level_note': c['note'],
        'technique': c['technique'],
    })
na = [{'property_id': pid, 'reason': M.NOT_APPLICABLE[pid]} for pid in props if pid not in M.CHECKS]
missing = [p for p in props if p not in M.CHECKS and p not in M.NOT_APPLICABLE]
assert not missing, missing
man = {
    'version': 1,
    'setup_cmd': 'sh tools/build.sh',
    'hooks': {'guard': 'GLM_VERIF_HOOKS', 'enable': 'no source hooks are needed: kernels are generated under /verif/_work and compiled against /repo with -I/repo; configuration is imposed with -D flags on the kernels',
              'baseline_off_cmd': 'cmake --build /repo/_build -j16 && ctest --test-dir /repo/_build -j8 --timeout 900',
              'source_commits': [], 'add_only': True},
    'engines': [{'name': 'laneflow', 'path': 'laneflow/', 'serves_properties': sorted(M.CHECKS),
                 'kind_free_text': 'static analysis: abstract interpretation (term / polynomial / bit-provenance / ordering domains) of clang-14 LLVM IR of generated one-call kernels instantiated from /repo headers; compile-fail witnesses; nothing is executed'}],
    'checks': checks,
    'not_applicable': na,
    'notes': M.NOTES,
}
json.dump(man, open(os.path.join(os.path.dirname(__file__), '..', 'MANIFEST.json'), 'w'), indent=1)
print('MANIFEST.json: %d checks, %d not applicable' % (len(checks), len(na)))
