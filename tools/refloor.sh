#!/bin/sh
# developer helper: run every registered check in both tiers on the clean /repo and record the floors from each run.
# Only to be used after the counts were looked at; refuses to run when /repo has local modifications.
cd /verif
git -C /repo diff --quiet -- glm || { echo "/repo modified"; exit 2; }
props=${*:-$(python3 -c "import json;print(' '.join(c['property_id'] for c in json.load(open('MANIFEST.json'))['checks']))")}
for p in $props; do
  for t in thorough quick; do
    VERIF_NO_FLOORS=1 ./check $p --tier $t | tail -1
    python3 tools/update_floors.py $p >/dev/null
  done
done
