#!/usr/bin/env python3
"""prints the prompt for an independent seeding sub-agent (property text only; own scratch worktree)"""
import json, sys, subprocess, os
pid, n = sys.argv[1], sys.argv[2]
extra = sys.argv[3] if len(sys.argv) > 3 else ''
prop = [json.loads(l) for l in open('/verif/properties.jsonl') if json.loads(l)['id'] == pid][0]
wt = '/tmp/seed/%s_%s' % (pid, n)
import glob
tried = []
anchor_files = set(prop['anchors']['files'])
for mf in sorted(glob.glob('/verif/seeded/*/meta.json')):
    try:
        same = os.path.basename(os.path.dirname(mf)).startswith(pid + '_')
        if not same:
            # a change kept under another property that touches one of this property's files is just as taken (batch 27: rotateY(vec4) was made twice, for C04 and C09)
            touched = {l[6:].strip() for l in open(os.path.join(os.path.dirname(mf), 'patch.diff')) if l.startswith('+++ b/')}
            if not (touched & anchor_files):
                continue
        tried.append('    - ' + json.load(open(mf))['breaks'][:260])
    except Exception:
        pass
if tried:
    extra += (' Other developers have already made the following changes for this property; do NOT repeat any of them or a close variant (same function and same kind of slip) - pick a different function or a different kind of slip:\n' + '\n'.join(tried) + '\n')
if not os.path.exists(wt):
    subprocess.check_call(['git', '-C', '/repo', 'worktree', 'add', '--detach', wt, 'HEAD'], stdout=subprocess.DEVNULL, stderr=subprocess.DEVNULL)
print(f"""You are helping to evaluate a verification framework for the C++ header-only math library g-truc/glm. Your job is to play the role of a developer who introduces a subtle regression.

You have your own scratch git worktree of the library at {wt} (work ONLY there; never touch /repo or /verif, and do not read anything under /verif). There is no network.

The property that must be broken (this is all you are told about what is being verified):

  ID: {prop['id']} — {prop['title']}
  Statement: {prop['statement']}
  Quantifier: {prop['quantifier']['text']}
  Relevant files: {', '.join(prop['anchors']['files'][:14])}

Task: make ONE small, realistic change to the library sources under {wt}/glm (the kind of slip a maintainer could plausibly commit: a wrong index, sign, lane, constant, comparison direction, mask, missing case, swapped #if arm, a sibling overload that silently diverges ...) such that
  1. the library still compiles and the ENTIRE existing test suite still passes, and
  2. the property above is violated for some inputs / some instantiation / some configuration, and
  3. the violation needs something specific to manifest — an unusual input, a particular type/length/qualifier/shape instantiation, a particular configuration macro, or two cooperating sites that each look fine alone — not something ordinary use would expose at once. {extra}

How to build and run the existing tests in your worktree (takes ~2-3 minutes; use -j8):
  cmake -G Ninja -S {wt} -B {wt}/_build -DGLM_BUILD_TESTS=ON -DCMAKE_BUILD_TYPE=RelWithDebInfo -DCMAKE_CXX_FLAGS=-Wno-error >/dev/null && cmake --build {wt}/_build -j8 2>&1 | tail -3 && ctest --test-dir {wt}/_build -j8 --timeout 900 2>&1 | tail -5
All 185 tests must pass with your change.

Deliverables — write them into {wt}/_seed_out/ :
  - patch.diff : output of `git -C {wt} diff -- glm` (your change only, applies to the unmodified tree with `git apply`)
  - demo.cpp   : a small standalone program (compile with: g++ -std=gnu++17 -I<tree> demo.cpp -o demo ; add any -D/-m flags it needs in a comment on line 1) that exits 0 on the UNCHANGED library and exits non-zero (printing what went wrong) WITH your change
  - notes.md   : which clause of the property breaks, what exactly is needed for it to manifest, and the exact commands you ran (build, tests, demo with and without the change) with their results
Verify all three claims yourself (tests pass with the change; demo fails with the change; demo passes on a clean checkout: compile the demo against /repo read-only with -I/repo, or reverse your patch with `git -C {wt} apply -R` and re-apply it afterwards -- do NOT use `git stash`: the stash is shared by all worktrees of the repository and other people work in sibling worktrees). Remove {wt}/_build when you are done to save disk. Report back in a few lines what you changed and whether everything was verified.""")
