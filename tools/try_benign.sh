#!/bin/sh
# usage: tools/try_benign.sh <worktree with a behaviour-preserving change applied> [property ids... (default: all)]
# runs the quick checks against that tree (GLM_REPO override; /repo is not touched) and reports every non-zero exit / VIOLATION: each one is a false alarm to look at.
wt=$1; shift
V=$(cd "$(dirname "$0")/.." && pwd)
cd $V
props=${*:-$(python3 -c "import json;print(' '.join(c['property_id'] for c in json.load(open('MANIFEST.json'))['checks']))")}
bk=$(mktemp -d /tmp/benign_evidence.XXXXXX); cp -a $V/evidence $bk/evidence; cp -a $V/replay $bk/replay 2>/dev/null
trap 'rm -rf $V/evidence $V/replay; cp -a $bk/evidence $V/evidence; cp -a $bk/replay $V/replay 2>/dev/null; rm -rf $bk' EXIT INT TERM
for p in $props; do
  GLM_REPO=$wt ./check $p --tier quick > /tmp/benign_check_$p.log 2>&1; rc=$?
  nv=$(grep -c '^VIOLATION' /tmp/benign_check_$p.log)
  if [ $rc -ne 0 ] || [ $nv -ne 0 ]; then
    echo "!! $p exit $rc, $nv VIOLATION lines; $(tail -1 /tmp/benign_check_$p.log | cut -c1-160)"
    grep -A2 '^VIOLATION' /tmp/benign_check_$p.log | head -${SHOW:-9} | cut -c1-400
    grep 'ANALYSIS-BROKEN' /tmp/benign_check_$p.log | head -3 | cut -c1-300
  else
    echo "ok $p $(tail -1 /tmp/benign_check_$p.log | cut -c1-110)"
  fi
done
