#!/bin/sh
# builds /verif/_bin/irtool from tools/irtool.cc (offline; LLVM 14 development files are pre-installed)
set -e
cd "$(dirname "$0")/.."
mkdir -p _bin
if [ ! -x _bin/irtool ] || [ tools/irtool.cc -nt _bin/irtool ]; then
  clang++ $(llvm-config-14 --cxxflags) -fno-rtti -O1 tools/irtool.cc -o _bin/irtool /usr/lib/llvm-14/lib/libLLVM-14.so
fi
echo "irtool ok"
