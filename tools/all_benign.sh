#!/bin/sh
# developer helper: apply every kept behaviour-preserving change set (benign/*/patch.diff) to a scratch worktree and run the quick checks against it (GLM_REPO override);
# any "!!" line is a false alarm (VIOLATION) or an analysis that a harmless refactor breaks (exit 2).   usage: tools/all_benign.sh [property ids ...]
V=$(cd "$(dirname "$0")/.." && pwd)
cd $V
wt=/tmp/mut/benign_wt_$$
for d in benign/*/; do
  id=$(basename $d)
  rm -rf $wt; git -C /repo worktree prune; git -C /repo worktree add --detach $wt HEAD >/dev/null 2>&1 || { echo "cannot create worktree"; exit 2; }
  if ( cd $wt && git apply $V/$d/patch.diff ); then
    echo "######## $id"
    SHOW=4 tools/try_benign.sh $wt "$@" | grep -v "^ok "
  else
    echo "######## $id: patch does not apply to the current HEAD"
  fi
  git -C /repo worktree remove --force $wt
done
