#!/bin/sh
# usage: tools/confirm_seed.sh <worktree with the change applied and _seed_out/> <seed id> <property>
# independently confirms: (1) patch applies to /repo HEAD, (2) full test suite passes with it, (3) demo fails with it and passes without.
wt=$1; sid=$2; prop=$3
out=/verif/seeded/$sid; mkdir -p $out
cp $wt/_seed_out/patch.diff $out/patch.diff; cp $wt/_seed_out/demo.cpp $out/demo.cpp 2>/dev/null; cp $wt/_seed_out/notes.md $out/notes_from_author.md 2>/dev/null
scratch=/tmp/seed/confirm_$sid
rm -rf $scratch; git -C /repo worktree add --detach $scratch HEAD >/dev/null 2>&1 || exit 2
( cd $scratch && git apply $out/patch.diff ) || { echo "patch does not apply to HEAD"; git -C /repo worktree remove --force $scratch; exit 2; }
cmake -G Ninja -S $scratch -B $scratch/_build -DGLM_BUILD_TESTS=ON -DCMAKE_BUILD_TYPE=RelWithDebInfo -DCMAKE_CXX_FLAGS=-Wno-error >/dev/null 2>&1
cmake --build $scratch/_build -j16 >/tmp/seed/confirm_$sid.build.log 2>&1; brc=$?
tests=$(ctest --test-dir $scratch/_build -j16 --timeout 900 2>&1 | grep "tests passed" )
flags=$(head -1 $out/demo.cpp | grep -o -- ' -[DmfO][A-Za-z0-9_][A-Za-z0-9_=.+-]*' | grep -v -- '-o$' | tr '\n' ' ')
g++ -std=gnu++17 -I$scratch $flags $out/demo.cpp -o /tmp/seed/demo_$sid.with 2>/dev/null && /tmp/seed/demo_$sid.with >/dev/null 2>&1; with=$?
g++ -std=gnu++17 -I/repo $flags $out/demo.cpp -o /tmp/seed/demo_$sid.without 2>/dev/null && /tmp/seed/demo_$sid.without >/dev/null 2>&1; without=$?
git -C /repo worktree remove --force $scratch
rm -f /tmp/seed/demo_$sid.with /tmp/seed/demo_$sid.without
echo "seed=$sid property=$prop build_rc=$brc tests='$tests' demo_with_patch_exit=$with demo_without_patch_exit=$without flags='$flags'" | tee $out/confirm.txt
