#!/bin/sh
# runs every registered quick check on /repo as it is and prints one line per property (evidence files are rewritten)
cd /verif
if ! git -C /repo diff --quiet -- glm; then echo "WARNING: /repo has uncommitted modifications"; fi
for p in $(python3 -c "import json; print(' '.join(c['property_id'] for c in json.load(open('MANIFEST.json'))['checks']))"); do
  ./check $p --tier ${1:-quick} > /tmp/run_all_$p.log 2>&1; rc=$?
  echo "$p rc=$rc $(tail -1 /tmp/run_all_$p.log | cut -c1-150)"
done
python3-vt - <<'PY'
import json, jsonschema, glob
sch = json.load(open('/root/.vp/EVIDENCE.schema.json'))
for f in sorted(x for x in glob.glob('/verif/evidence/*.json') if not x.endswith('.partial.json')):
    e = json.load(open(f))
    jsonschema.validate(e, sch)
    c = e['coverage']
    if e['level'] == 'proof' and c['obligations'] != c['discharged']:
        print('EVIDENCE PROBLEM', f, c['obligations'], c['discharged'])
print('evidence files validate')
PY
